#!/bin/bash
# Nothing to build: the framework is pure Python run by /venv/bin/python.
# Verify the interpreter and the libraries the checks rely on are present.
set -e
cd "$(dirname "${BASH_SOURCE[0]}")/.."
/venv/bin/python - <<'PY'
import numpy, numba, pint, matplotlib
print("setup ok: numpy", numpy.__version__, "numba", numba.__version__, "pint", pint.__version__)
PY
chmod +x check tools/*.py tools/*.sh 2>/dev/null || true
mkdir -p evidence replays

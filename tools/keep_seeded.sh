#!/bin/bash
# usage: tools/keep_seeded.sh <id> <property> <worktree> "<needs>"   — verify and file a sub-agent's change
# Confirms in the worktree: suite passes with the change, demo fails with it, demo passes without it.
set -u
id="$1"; prop="$2"; wt="$3"; needs="$4"
cd "$wt" || exit 2
git diff > /tmp/seed-$id.diff
[ -s /tmp/seed-$id.diff ] || { echo "no diff in $wt"; exit 2; }
run() { HOME=$(mktemp -d) PYTHONPATH=$wt/src "$@"; }
suite=$(run /venv/bin/python -m pytest -q -p no:cacheprovider test 2>&1 | tail -1)
run /venv/bin/python demo.py > /tmp/seed-$id.with.txt 2>&1; with=$?
git apply -R /tmp/seed-$id.diff || { echo "cannot reverse patch"; exit 2; }
run /venv/bin/python demo.py > /tmp/seed-$id.without.txt 2>&1; without=$?
git apply /tmp/seed-$id.diff || { echo "cannot re-apply patch"; exit 2; }
echo "suite: $suite | demo with change: exit $with | without: exit $without"
case "$suite" in *"192 passed"*) ;; *) echo "REJECT: suite does not pass"; exit 1;; esac
[ $with -ne 0 ] && [ $without -eq 0 ] || { echo "REJECT: demo does not discriminate"; exit 1; }
d=/verif/seeded/$id; mkdir -p $d
cp /tmp/seed-$id.diff $d/patch.diff; cp demo.py $d/demo.py; [ -f NOTES.md ] && cp NOTES.md $d/NOTES.md
python3 - "$id" "$prop" "$needs" "$suite" "$with" "$without" > $d/meta.json <<'PY'
import json,sys
i,p,n,s,w,wo=sys.argv[1:7]
print(json.dumps({"id":i,"property":p,"needs_to_manifest":n,"source":"independent sub-agent given only the property text and a scratch worktree",
 "confirmed":{"suite_with_change":s,"demo_exit_with_change":int(w),"demo_exit_without_change":int(wo),
 "commands":["HOME=$(mktemp -d) PYTHONPATH=<wt>/src /venv/bin/python -m pytest -q -p no:cacheprovider test","HOME=$(mktemp -d) PYTHONPATH=<wt>/src /venv/bin/python demo.py (with the change, and after git stash)"]}},indent=1))
PY
echo "kept as $d"

#!/venv/bin/python
"""Apply every seeded property-breaking change to a scratch copy of /repo and run the checks against it.

usage: tools/run_seeded.py [--tier quick|thorough] [--all-checks] [id ...]
For each /verif/seeded/<id>/ (patch.diff, demo, meta.json) the patch is applied to a copy of /repo's
working tree (never to /repo itself), the check of the property it breaks (meta.json "property"; with
--all-checks every check) is run with VERIF_REPO pointing at the copy, and the outcome is tabulated in
/verif/seeded/RESULTS.md. A seeded change counts as caught when the check exits 1 with a VIOLATION line.
"""
import json
import os
import shutil
import subprocess
import sys
import tempfile

HERE = os.path.dirname(os.path.dirname(os.path.abspath(__file__)))
ALL = [f"C{i:02d}" for i in range(1, 21)]


def main():
    args = sys.argv[1:]
    tier = "quick"
    if "--tier" in args:
        i = args.index("--tier")
        tier = args[i + 1]
        del args[i: i + 2]
    outname = "RESULTS.md"
    if "--out" in args:
        i = args.index("--out")
        outname = args[i + 1]
        del args[i: i + 2]
    allchecks = "--all-checks" in args
    args = [a for a in args if not a.startswith("--")]
    sdir = os.path.join(HERE, "seeded")
    ids = args or sorted(d for d in os.listdir(sdir) if os.path.isdir(os.path.join(sdir, d)))
    rows = []
    for sid in ids:
        d = os.path.join(sdir, sid)
        meta = json.load(open(os.path.join(d, "meta.json")))
        tmp = tempfile.mkdtemp(prefix="seeded-")
        try:
            os.makedirs(os.path.join(tmp, "repo"))
            if meta.get("base_commit"):
                # a change written against an earlier commit and neutralised by a later repair: judged on the tree it was written for
                ar = subprocess.run(["git", "-C", "/repo", "archive", meta["base_commit"], "src"], capture_output=True, check=True)
                subprocess.run(["tar", "-x", "-C", os.path.join(tmp, "repo")], input=ar.stdout, check=True)
            else:
                shutil.copytree("/repo/src", os.path.join(tmp, "repo", "src"), ignore=shutil.ignore_patterns("__pycache__", "*.egg-info"))
            base_sigs = {}
            if meta.get("base_commit"):
                # a later repair fixed, in that older tree, defects the current checks also report: the signatures of the unpatched
                # base tree are taken first, and only signatures that the seeded change adds to them count
                for c in [meta["property"]] + [c for c in meta.get("also_run", [])]:
                    env = dict(os.environ, VERIF_REPO=os.path.join(tmp, "repo"), VERIF_TIER=tier)
                    p0 = subprocess.run([os.path.join(HERE, "check"), c, "--tier", tier], env=env, capture_output=True, text=True)
                    base_sigs[c] = {l.split("sig=")[1].split(" ")[0] for l in p0.stdout.splitlines() if "detail: sig=" in l}
            r = subprocess.run(["patch", "-p1", "-s", "-d", os.path.join(tmp, "repo"), "-i", os.path.join(d, "patch.diff")], capture_output=True, text=True)
            if r.returncode != 0:
                rows.append((sid, meta["property"], "-", "PATCH DOES NOT APPLY", r.stdout[-200:]))
                continue
            checks = ALL if allchecks else [meta["property"]] + [c for c in meta.get("also_run", [])]
            for c in checks:
                env = dict(os.environ, VERIF_REPO=os.path.join(tmp, "repo"), VERIF_TIER=tier)
                p = subprocess.run([os.path.join(HERE, "check"), c, "--tier", tier], env=env, capture_output=True, text=True)
                sigs = sorted({l.split("sig=")[1].split(" ")[0] for l in p.stdout.splitlines() if "detail: sig=" in l})
                verdict = {0: "missed", 1: "CAUGHT", 2: "harness error"}.get(p.returncode, f"exit {p.returncode}")
                if c in base_sigs:
                    sigs = sorted(set(sigs) - base_sigs[c])
                    if p.returncode == 1 and not sigs:
                        verdict = "missed"
                    elif sigs:
                        sigs = ["(added to the %d signatures of the base tree %s:)" % (len(base_sigs[c]), meta["base_commit"])] + sigs
                if c != meta["property"] and p.returncode == 0:
                    continue
                rows.append((sid, meta["property"], c, verdict, "; ".join(sigs)[:300]))
                print(sid, c, verdict, "; ".join(sigs)[:200], flush=True)
        finally:
            shutil.rmtree(tmp, ignore_errors=True)
    with open(os.path.join(sdir, outname), "w") as f:
        f.write(f"# Seeded changes vs checks (tier {tier})\n\n| seeded change | breaks | check run | outcome | violation signatures |\n|---|---|---|---|---|\n")
        for r in rows:
            f.write("| " + " | ".join(str(x) for x in r) + " |\n")
    return 0 if all(r[3] == "CAUGHT" for r in rows if r[2] == r[1]) else 1


if __name__ == "__main__":
    sys.exit(main())

#!/bin/bash
# usage: tools/try_mutant.sh "<props>" <relative file under src/osyris> <sed expression> [tier]
# Copies /repo to a scratch dir, applies the sed expression, runs the checks with VERIF_REPO set.
props="$1"; file="$2"; expr="$3"; tier="${4:-quick}"
tmp=$(mktemp -d /tmp/mutant-XXXXXX)
mkdir -p $tmp/repo && cp -r /repo/src $tmp/repo/src
sed -i "$expr" "$tmp/repo/src/osyris/$file"
if diff -q /repo/src/osyris/$file $tmp/repo/src/osyris/$file >/dev/null; then echo "MUTANT DID NOT CHANGE FILE"; rm -rf $tmp; exit 3; fi
diff /repo/src/osyris/$file $tmp/repo/src/osyris/$file | head -6
for p in $props; do
  VERIF_REPO=$tmp/repo /verif/check $p --tier $tier 2>&1 | grep -E "^(VIOLATION|OK|harness|KNOWN)" | sed 's#replay=.*#replay=...#' | sort | uniq -c | head -8
done
rm -rf $tmp

#!/usr/bin/env python3
"""usage: tools/seeded_table.py <first-pass results.md> <final results.md> <id-substring>
Prints DESIGN.md table rows (seeded change | needs | first pass | final | signatures) for the seeded ids that match."""
import json
import os
import sys

HERE = os.path.dirname(os.path.dirname(os.path.abspath(__file__)))


def parse(fn):
    out = {}
    for line in open(os.path.join(HERE, "seeded", fn)):
        cells = [c.strip() for c in line.strip().strip("|").split("|")]
        if len(cells) >= 5 and cells[0].startswith("C") and cells[2] == cells[1]:
            out[cells[0]] = (cells[3], cells[4])
    return out


first, final, sub = parse(sys.argv[1]), parse(sys.argv[2]), sys.argv[3]
word = {"CAUGHT": "caught", "missed": "missed", "harness error": "harness error"}
for sid in sorted(final):
    if sub not in sid:
        continue
    meta = json.load(open(os.path.join(HERE, "seeded", sid, "meta.json")))
    f = word.get(first.get(sid, ("?",))[0], first.get(sid, ("?",))[0])
    print(f"| {sid} | {meta['needs_to_manifest'][:150]} | {f} | {word.get(final[sid][0], final[sid][0])} | `{final[sid][1][:110]}` |")

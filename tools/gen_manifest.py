#!/venv/bin/python
"""Regenerates /verif/MANIFEST.json from the table below (keeps it valid at all times)."""
import json
import os

HERE = os.path.dirname(os.path.dirname(os.path.abspath(__file__)))

E1 = "exhaustive small-scope input enumeration against a reference model (E1)"
E2 = "explicit-state BFS over operation histories on live objects against a reference model (E2)"
E3 = "exhaustive / preemption-bounded prange schedule enumeration on source-derived thread bodies (E3)"

# id -> (built, category, technique, text, note, design_ref)
CHECKS = {
    "C19": (
        True,
        "model_checking",
        E2 + " over plotting-call sequences + " + E1 + " over the option lattice",
        "Histories: every sequence (all orders, depth 2 quick / 3 thorough, undeduplicated) of eight kinds of calls (thin map with a "
        "resolution dict, thick two-layer map with shared extra keywords, rendered map, histogram2d with Quantity limit and a "
        "Layer, rendered log histogram2d, histogram1d with layer bins/weights, scatter with Array colour and size, plot) sharing "
        "one set of argument objects; deep snapshots of every shared object (Arrays, Vectors, Datagroup, four Layers with their "
        "keyword dicts, two resolution dicts, origin, window and limit Quantities, weights) must be identical before and after each "
        "call, and each call's data must equal the same call on fresh objects. Option lattice: for map and histogram2d each of "
        "{mode, norm, vmin, vmax, operation, extra keyword} at {neither, layer, call, both with different values} - all 4096 "
        "combinations (thorough) or everything within 2 deviations (quick) - and 64 combinations for histogram1d {bins, weights, "
        "extra}; the effective value must be the layer's if set, else the call's.",
        "Norms are given as strings. Rendering uses the Agg backend; only returned data and argument objects are observed. Added: two layers with independent options, default-resolution thick maps, references computed in one-task processes.",
        "DESIGN.md §3 C19",
    ),
    "C03": (
        True,
        "model_checking",
        E1 + " with the M3 point-location oracle + " + E3,
        "Inputs: leaf sets of 2-D and 3-D AMR trees (complete or with 1-2 holes) x origins on an off-face lattice (plus an on-face "
        "block) x orientations (axis letters, triples in several cases, every lattice normal of {-2..2}^3 in the thorough tier, "
        "VectorBasis) x windows from 1/16 of the box to twice the box (dx=dy, dx!=dy, omitted; in cm, m, au with different position "
        "units and box sizes) x resolutions 1,2,3,4,8 and {x:3,y:5}, scalar and vector layers: every pixel of every map(plot=False) is "
        "compared with brute-force point location at origin + x_i u + y_j v using the returned pixel centres (strictly inside -> that "
        "cell's value; outside every cell -> masked; within 1e-9 box of a face -> any touching cell). Schedules: evaluate_on_grid's "
        "thread bodies (AST-derived from the current source) run on arguments recorded from real map() calls; every partition of 4-8 "
        "cells among 2-3 virtual threads: off-face harnesses are closed by the conflict certificate, on-face ones are enumerated with "
        "0-2 preemptions and every final image must lie in the per-pixel allowed set.",
        "Trusted: M3 oracle, get_direction's basis (checked by C18). Schedule exploration is on source-derived bodies under sequential "
        "consistency, not on numba's compiled threads. Added: call sequences in one process (same window again, other unit, other layer), 'top'/'side' views with a later layer from another Datagroup.",
        "DESIGN.md §3 C03",
    ),
    "C11": (
        True,
        "model_checking",
        E1 + " with the M3 column-sampling oracle + " + E3,
        "Inputs: meshes as in C03 x slab thickness from one pixel to the box (incl. slabs far thinner than the cells and planes far "
        "from cell centres) x windows x resolutions (int, dict with and without z) x the eight reductions x axis and oblique "
        "orientations x unit combinations: each pixel is predicted by locating the depth samples z_k = -dz/2 + (k+1/2)dz/nz with brute "
        "force, reducing the column with the same numpy function, multiplying sum/nansum by the depth step and checking the unit "
        "dimension (layer x length) through M2; mask <=> NaN reduction. Both integers next to dz/pixel are accepted as default depth "
        "resolution. Schedules: slab harnesses with 2-3 depth samples on evaluate_on_grid as in C03.",
        "Columns containing a sample within 1e-9 box of a face are skipped. dz below one pixel is outside the statement. Added: sequences of thick maps in one process mixing the default resolution, partial dictionaries and integers.",
        "DESIGN.md §3 C11",
    ),
    "C05": (
        True,
        "model_checking",
        E3 + " + " + E1,
        "Schedules: thread bodies are derived by AST rewriting from the current source of hist2d (whether the region is parallel is read "
        "from the real numba dispatcher); for 12 (quick) / 16 (thorough) harnesses with points forced into one bin, two bins or disjoint "
        "bins and 1-2 value layers, every partition of the iterations among 2-3 virtual threads is explored: a conflict certificate "
        "(no element touched by iterations of two threads) closes conflict-free partitions with one execution, the others are "
        "enumerated with 0, 1, 2 preemptions and then completely (<= 60000 interleavings), every final (out, counts) compared with the "
        "sequential result. Inputs: the compiled kernel on every placement of 0-2 points (3-4 with two deviations) over an alphabet of "
        "positions around each limit and bin edge, NaN, +-inf, for resolutions 1-4 and two ranges; the public histogram2d on 6 data sets "
        "x explicit/Quantity/tight/half/automatic limits x lin/log axes x resolutions x 0-2 layers with sum/mean at layer and call level.",
        "The schedule exploration runs source-derived bodies on Python threads under sequential consistency at element granularity; it "
        "does not drive numba's compiled threads. The 16-thread free run of the compiled kernel (thorough) is corroboration only. Added: E3 derives iterations from the kernel's real loop and answers numba thread queries virtually; a deterministic (size x thread count) ladder on the compiled kernel with integer-valued data; points exactly on interior edges with dyadic limits.",
        "DESIGN.md §2.4, §3 C05",
    ),
    "C16": (
        True,
        "exploration",
        E1 + " with exact-rational membership oracle",
        "Product of {extract_sphere, extract_box} x origin lattice x radius / per-axis size lattice {0,1/4,1/2,1,2} x (position unit, "
        "argument unit) pairs x {Array, Quantity} on a dataset with a mesh group (positions, scalar and vector members), a "
        "position-less group of the mesh's shape, particles with their own positions and a group of another shape, all rows on dyadic "
        "lattices so that boundary membership (strict for spheres, inclusive for boxes) is exact; plus a loader-produced dataset. "
        "Checked: exactly the expected rows per group, every member row-aligned with units kept, meta carried over, empty groups "
        "omitted, groups without positions ignored, input dataset bit-identical afterwards.",
        "3-D positions; dyadic coordinates. Added: a group with own positions and the mesh's row count; integer Pythagorean offsets exactly on the sphere surface.",
        "DESIGN.md §3 C16",
    ),
    "C18": (
        True,
        "exploration",
        E1,
        "Every axis letter and axis triple in three capitalisations; every normal with components from a 19-value alphabet (0, small "
        "integers, 1e+-8, 1e+-200, denormals) cubed minus zero, without and with length units; VectorBasis built from n and from "
        "(n, exact perpendicular u) over 8^3-1 normals; 'top' and 'side' over 2-3 cell configurations on integer lattices (positions, "
        "velocities, masses, three window forms incl. a shifted origin that leaves cells outside the sphere). Oracle: unit length, "
        "mutual perpendicularity, n parallel to the request, u x v = n, n parallel to (or image plane containing) the independently "
        "summed angular momentum.",
        "Tolerances 1e-12 / 1e-10. Configurations with zero net angular momentum in the window are outside the statement. Added: the basis osyris.map actually uses is recovered through the public API from constant vector layers, incl. layers taken from two Datagroups.",
        "DESIGN.md §3 C18",
    ),
    "C17": (
        True,
        "model_checking",
        E2 + " with a reference heap (buffers, wrappers, containers)",
        "Breadth-first exploration (depth 3 quick / 4 thorough, float64 and float32) of every interleaving of: storing one Array/"
        "Vector/derived object in two Datagroups and a Datagroup in a Dataset; x op= y for the four in-place operators with same-unit, "
        "compatible-different, plain float, incompatible and other-dimension operands on an Array, a Vector, the derived object and "
        "a member reached through its container; copy(), copy.copy, deepcopy of Array/Vector/Datagroup/Dataset; slicing. After each "
        "step: value and dimension of x op y from the independent unit table, Array identity preserved, right operand bit-identical, "
        "same raw numbers through every alias of the buffer, every non-aliased wrapper bit-identical, and the identity and "
        "shared-memory partitions of all reachable wrappers equal to the reference heap's.",
        "A slice is a separate wrapper: its unit label is not required to follow a unit-changing update made through another wrapper. Added: strided and reversed views (element-index model), slicing of groups, sortby on groups sharing members, a persistent right operand used, modified in place and used again.",
        "DESIGN.md §3 C17",
    ),
    "C07": (
        True,
        "exploration",
        E1 + " + M2 independent unit algebra",
        "Product of the six comparison operators x right-operand kind (Array, Quantity, int, float, 0-d and n-d ndarray) x 4 left "
        "dtypes x 7 shape pairs incl. broadcasting x every ordered unit pair within 7 families plus incompatible cross-family pairs, "
        "with right-hand values built as the left-hand quantity times {0.99, 1, 1.01} expressed in the other unit so that the verdict "
        "flips only after conversion; exact integer pairs (1 m vs 99/200/301 cm ...); the four logical operators over all truth "
        "patterns, shapes and operand kinds. Result must be a dimensionless boolean Array of the broadcast shape; incompatible "
        "dimensions must raise.",
        "Trusted: M2 unit table. Elements within the rounding band of equality accept either verdict.",
        "DESIGN.md §3 C07",
    ),
    "C08": (
        True,
        "exploration",
        E1 + " + M2 independent unit table; per-process configuration enumeration",
        "Every ordered pair of units within 9 families (incl. every unit and alias osyris defines) x dtypes x shapes: physical value "
        "preserved (M2), exact ratio for exact units, source bit-identical, round trip, chains a->b->c vs a->c, Vectors of 1-3 "
        "components against per-component conversion, every cross-family pair must raise; each constant of the default "
        "configuration against independently written IAU 2015 / CODATA values; equivalent spellings; and all 8 subsets of "
        "user-supplied configuration objects, each imported in a fresh process with its own HOME.",
        "Trusted: M2 table (constants pinned to 1e-3/1e-4 relative; finer digits are not checked). Added: temperature, frequency and electromagnetic families (Gaussian vs SI), unit strings that collide when white space is dropped, requested in sequences.",
        "DESIGN.md §3 C08",
    ),
    "C09": (
        True,
        "exploration",
        E1 + " differential against component Arrays + M2 for norm/dot/cross",
        "Product of component count {1,2,3} x 14 binary operators (arithmetic, comparison, in-place) x 7 right-operand kinds (incl. a "
        "Vector with another component count, which must be rejected) x 6 unit pairs x dtypes x shapes, plus unary/reflected/power, "
        "numpy unary/binary/sequence/reduction, reshape/slicing/mask/copy and logical operators: the Vector result must equal, bit "
        "for bit and unit for unit, the same operation on fresh component Arrays, or both must raise. norm against sqrt(sum c^2) in "
        "CGS; dot and cross over a lattice of integer 3-vectors in same and mixed units against CGS values, with symmetry, "
        "antisymmetry, a.(axb)=0 and the Lagrange identity.",
        "Array semantics themselves are pinned by C02/C07/C10.",
        "DESIGN.md §3 C09",
    ),
    "C02": (
        True,
        "exploration",
        E1 + " + M2 independent unit algebra",
        "Product of {+,-,*,/} x {Array-Array over 9 (quick) / 16 dtype pairs x 9 shape pairs incl. broadcasting x every ordered unit "
        "pair within 7 families plus incompatible cross-family pairs x 2 value sets; Array with int/float/0-d/n-d ndarray/Quantity "
        "(same, other, incompatible unit) on either side} and of {neg, ** k for k in 2,3,-1,0.5,0,1, k*a, 2.5*a, k/a} x 4 dtypes x 4 "
        "shapes x all units. Expected physical value and dimension vector come from exact CGS scales in an independent table; "
        "incompatible +/- must raise and leave both operands bit-identical.",
        "Trusted: M2 unit table; pint only parses unit labels. Reversed operations that refuse are not flagged. Added after seeded changes: every length-3 sequence over 10 steps (binary operations interleaved with in-place changes of two persistent operands), electromagnetic and temperature unit families.",
        "DESIGN.md §3 C02",
    ),
    "C10": (
        True,
        "exploration",
        E1 + " + M2 independent unit algebra",
        "Product of a fixed catalogue (39 unit-preserving unary forms incl. axis=/keepdims= keywords, 3 unary predicates, 8 "
        "unit-transforming unary forms, 12 same-unit n-ary functions, 6 comparison ufuncs, 3 multiplicative ufuncs, 8 out=/where/clip "
        "special forms) x unit assignments (same, compatible-different, incompatible, dimensionless) x second-operand kinds (Array, "
        "Quantity, ndarray, number, ndarray first, Quantity first) x dtypes x shapes. Values must equal numpy on the physical values; "
        "the unit must follow the function's class; operands carrying different units must be converted or refused, incompatible "
        "ones refused.",
        "Trusted: M2 unit table. Index-valued, var/prod and transcendental functions are outside the statement. Added: every length-3 sequence over 10 steps on persistent Arrays (conversions, out= targets, in-place updates).",
        "DESIGN.md §3 C10",
    ),
    "C04": (
        True,
        "exploration",
        E1 + " (three layers) + M1 writer + frozen Hilbert table",
        "Layer 1: the tree's _hilbert3d on every cell of the 2^b grids (b<=3/4): bijection, face adjacency of consecutive keys, prefix "
        "nesting, agreement with a frozen table. Layer 2: the real hilbert_cpu_list/_get_cpu_list for every dyadic box at levelmax 2 "
        "(all 1000) and 3 (1331 quick / all 46656 thorough) x bound-key lattice (every cut at levelmax 2 in thorough; pairs of cuts for 3 "
        "cpus, incl. empty domains) x levelmin x lmax: the list must contain the owner of every potential cell of any admissible "
        "level whose centre is in the box (= quantification over all trees). Layer 3: 25+ outputs (1-D, 2-D, 3-D; levelmin 1-3; 2-3 "
        "cpus; Hilbert and planar ordering) x interval predicates on 1-3 axes (incl. boxes smaller than leaves and touching edges), "
        "value predicates, their AND, and every explicit cpu_list: selective load == filter(full load) as multisets over all columns.",
        "Trusted: frozen copy of RAMSES' Hilbert state diagrams (validated structurally), M1 writer, RAMSES ownership rule "
        "(key of the father cell's centre).",
        "DESIGN.md §3 C04",
    ),
    "C15": (
        True,
        "model_checking",
        E2 + " + M1 RAMSES writer, fresh-object oracle",
        "Breadth-first search over every sequence (depth 3 quick / 4 thorough, to fixpoint where reached) of 11-13 kinds of "
        "load() calls (full, group subsets, group switched off, value predicate, positional boxes that trigger CPU "
        "pre-selection, level cap, cpu_list, sortby, mesh and particle variable lists) on one live RamsesDataset over a 3-D, "
        "3-level, 3-cpu output with Hilbert-consistent ownership, particles and sinks. After every call each group must equal "
        "what a fresh dataset returns for the most recent call that produced it, untouched groups must be unchanged, "
        "ncells/nparticles/lmax and the number of files opened must match the fresh run. State canonicalisation (reader flags, "
        "read-sets, cpu_list, meta, group digests) is cross-checked by an undeduplicated pass.",
        "Differential oracle (same code, fresh object): shows history independence; single-load correctness is C01/C04/C12-C14.",
        "DESIGN.md §3 C15",
    ),
    "C13": (
        True,
        "exploration",
        E1 + " + M1 RAMSES writer, differential against the full load",
        "For 18 (quick) / 30+ (thorough) outputs with amr, hydro, grav, rt, part and sink files (ndim 1-3, 1-2 cpus with ghosts and "
        "boundary regions, three hydro descriptors incl. infixed and double-x names): every non-empty group subset as a list, "
        "every group subset switched off with False, every subset of each descriptor's variables (deviation bound 2 from all/none "
        "for long descriptors) and name sets from pairs of descriptors. Each selective load is compared bit-for-bit with the "
        "projection of the full load of the same files; vector assembly is predicted by an independently written merge rule.",
        "Trusted: M1 writer; the full load is anchored to the model by C01.",
        "DESIGN.md §3 C13",
    ),
    "C14": (
        True,
        "exploration",
        E1 + " + M1 particle/sink writer",
        "Particles: ndim x ncpu(1-3) x every per-cpu count vector over {0,1,3} x every d/i/b column type string up to length 3 "
        "(4 thorough) x position/velocity component sets full/partial/none x header record sizes x 2 unit systems, compared with "
        "the concatenation in cpu order of the stored values times the independently derived unit factor; sort-on-load with ties "
        "(key ordered, rows a permutation applied to all columns). Sinks: missing/empty/1-3 rows x both unit-line dialects x "
        "extra columns x unit systems, unit lines evaluated by an independent mini-evaluator.",
        "Trusted: M1 writer of part_*.out and sink_*.csv (my reading of RAMSES), M2 unit table.",
        "DESIGN.md §3 C14",
    ),
    "C12": (
        True,
        "exploration",
        E1 + " + M1 RAMSES writer",
        "Product of every tree of the small-scope families with every level predicate of five syntactic forms (l<=k, l<k, l==k, "
        "a<l<b, np.logical_and) for all thresholds up to levelmax+1, alone or ANDed with a density or position predicate, with "
        "1 cpu / 2 cpus with ghosts / particles and sinks present. Expected rows come from the model tree truncated at the "
        "highest accepted level (refined cells of that level become leaves carrying their stored coarse values); meta['lmax'] "
        "and, when all levels up to the cap are accepted, exact single coverage of the 2^L* lattice are checked.",
        "Trusted: M1 writer, M2 unit table. Predicates accepting no level are outside the statement.",
        "DESIGN.md §3 C12",
    ),
    "C01": (
        True,
        "exploration",
        E1 + " + M1 RAMSES writer",
        "Every AMR tree of 11 (quick) / 15 (thorough) small-scope families (1-D L<=3/4, 2-D L<=2 complete and L=3 capped, 3-D L<=2 "
        "complete and L=3 capped, levelmin>1 variants) under 3 fixed configurations; a core subset crossed with every "
        "configuration within 2 deviations of a baseline over 13 dimensions (ncpu, oct ownership, ghost population and son "
        "flags, boundary regions/nx, noutput, bound-key width, hydro/grav/rt variable lists, unit systems, output "
        "addressing incl. -1 with a decoy, ordering type); and every 2-cpu ownership assignment of small trees. Each case "
        "is written byte-exactly by the M1 writer, loaded by the real loader and compared as a multiset of rows "
        "(level, centre, dx, cpu, every variable in CGS, unit dimensions, vector assembly, mass, B_field, meta). Poisoned "
        "ghost copies make any foreign row visible. Exhaustive within those bounds; not a proof beyond them.",
        "Trusted: the M1 writer (my reading of the RAMSES format), pint's unit-expression parser, M2 unit table.",
        "DESIGN.md §3 C01",
    ),
    "C06": (
        True,
        "model_checking",
        E2 + " with row-provenance tags (M4)",
        "Breadth-first exploration of every history (to a depth bound) of insert/replace/update/delete/pop, 13 kinds of index "
        "objects (ints, negative and out-of-range ints, stepped slices, boolean masks as ndarray/Array, integer arrays with "
        "repeats as ndarray/Array/int32 Array, permutations) and sortby(member | permutation) on a live Datagroup mixing "
        "float and int Arrays and 2-/3-component Vectors. Each member row carries a tag; the reference model applies the "
        "index to every component array independently, so agreement means one row selection was applied to all members. "
        "The invariant 'all members have the group shape' is evaluated in every reached state.",
        "Bounded alphabets (3 keys, 7 value kinds, 4-6 rows) and depth; canonical-form soundness is cross-checked by an "
        "undeduplicated pass. Added: the same object stored twice in a group (alias, component alias), negative entries in index arrays, sorting by a permutation counted from the end.",
        "DESIGN.md §3 C06",
    ),
    "C20": (
        True,
        "model_checking",
        E2 + " + " + E1,
        "Every history of mutating dictionary operations (set/del/pop/clear/copy/update/ctor over 3 keys and 4-6 value "
        "kinds) on a live Datagroup and Dataset is explored breadth-first to a depth bound (fixpoint in the thorough tier) "
        "and compared, after every transition, with a plain-dict reference model through the full read-only API; "
        "== is evaluated on every ordered pair of a 30-group catalogue against element-wise equality computed from raw "
        "numbers. All explored traces are implementation traces.",
        "Values are fresh per insertion; 0-d members are handled by C06; bounded key/value alphabets and depth. Added: histories of == between two live groups in different units interleaved with in-place changes of their members.",
        "DESIGN.md §3 C20",
    ),
}

ALL = [f"C{i:02d}" for i in range(1, 21)]


# additions made after the third and fourth waves of independently seeded changes (DESIGN.md 9.6)
LATER = {
    "C01": "outputs whose directory dates, descriptor lines and csv columns are not in the customary order; 13-17 cpus, 42 (cpu, level) blocks, 8 levels.",
    "C02": "scaled pure-number units (percent, ppm, deg, cm/m); exponents and factors as every numpy scalar type and 0-d arrays; a power block over every kind of "
           "exponent object (dimensionless Array/Quantity, percent, equal and differing ndarray/list exponents, exponents with a dimension).",
    "C03": "several prange regions per kernel with poisoned np.empty; windows larger than the domain; the public API on 2-3 virtual threads (block W); cells "
           "holding inf/-inf/largest/denormal values; float32 and integer data; origin written in another unit.",
    "C04": "2-D and 1-D outputs with levelmin 3 and 3-7 domains; predicates given as partial, callable object, bound method and def.",
    "C05": "inputs scaled (2^11..2^17 points) until a block-parallel kernel has 2-4 iterations; limits as float32/int64/0-d/int and Quantity of float32; float32 "
           "and integer data.",
    "C06": "start states emptied by pop/del/clear; every hidden instance attribute is part of the canonical state.",
    "C07": "scaled pure-number units (percent, ppm, deg, cm/m).",
    "C08": "scaled pure-number units; results the element type cannot represent are skipped.",
    "C09": "the same Vector in two roles (v op v, concatenate/stack/hstack/vstack of lists repeating one object).",
    "C10": "calls that must be refused inside sequences (wrong length, incompatible unit): the destination keeps values and unit.",
    "C11": "the public API on 2-3 virtual threads with depth resolutions the thread count does not divide (block V); special values in the column; float32/integer data.",
    "C12": "one (cpu, level) block of 4160 cells (65640 in the thorough tier) under every kind of level predicate.",
    "C13": "descriptors with reordered vector components; name collections as tuple, set, frozenset, dict view, ndarray.",
    "C14": "descriptors and sink headers with components out of x,y,z order.",
    "C15": "sortby on each group; calls that a fresh dataset refuses (unknown sort key with a level cap, missing cpu file with a box, raising predicate) followed by ordinary loads.",
    "C16": "a single selected row must come back as one row (not 0-d).",
    "C17": "float32 in the quick tier; differential numpy model of views of 1-, 2- and 3-d members (basic slices, index arrays, masks; Array, Vector, Datagroup "
           "holders; one or two in-place updates of original, view or view of view); hidden instance attributes in the canonical state.",
    "C18": "the ends of the float64 range; 'top'/'side' with the origin (and window) written in other units than the positions.",
    "C19": "layers of different modes in every order (scatter first), from separate groups and from one group (layers sharing one Array object).",
    "C20": "hidden instance attributes in the canonical state; the value tag is a function of the visible state.",
}


WAVE5 = {'C01': 'Wave 5: runs in other environments (python -O, PYTHONOPTIMIZE=2, a user configuration with exact unit entries after wildcards); info files in Fortran E23.15 format; levelmax 21 and 24.', 'C03': 'Wave 5: uniformly fine meshes with tall and wide windows (dy given explicitly).', 'C04': 'Wave 5: several runs visited in one process, by absolute path and by the default relative path after chdir.', 'C05': 'Wave 5: a requested limit must be the grid edge also when the opposite limit is automatic.', 'C06': 'Wave 5: memory layout (strides, offset into the base buffer) is part of the canonical state; start state with a Vector built from the columns of one array.', 'C08': 'Wave 5: composite units grouped by dimension; stale look-alike configuration files next to the user configuration and in the working directory.', 'C09': 'Wave 5: n-d component arrays for norm in the quick tier.', 'C10': 'Wave 5: commutative functions must give the same outcome in both operand orders; a bare operand of add/subtract is a pure number.', 'C12': 'Wave 5: the same dataset loaded before with another level cap; level predicates as partial/callable/bound method.', 'C13': 'Wave 5: outputs with levelmax 21/24 and Fortran-format info files.', 'C14': 'Wave 5: a reduced case list re-run under python -O and PYTHONOPTIMIZE=2.', 'C16': 'Wave 5: in-place work on the extracted dataset must not reach the input.', 'C17': 'Wave 5: array-valued Quantity and bare ndarray right operands.', 'C20': 'Wave 5: keys ending in x or _x.'}


WAVE6 = {'C01': 'Wave 6: variable names that begin with or extend names the units library knows.', 'C03': 'Wave 6: boxes of 2^-26 kpc, 2^-30 m and 2^30 pc (nothing is close to zero on an absolute scale).', 'C04': 'Wave 6: layer 2 at levelmax 14 with domains that are slivers of 64-32768 keys next to the first key of a level-3 search cube.', 'C05': 'Wave 6: data moved by 2^45 or scaled by 2^-30 (a range is degenerate only if its limits are equal).', 'C07': 'Wave 6: the numpy-function spelling (np.less ...) of every comparison.', 'C09': 'Wave 6: Vectors whose second and third components were attached after construction.', 'C10': 'Wave 6: a 0-d Array as the unit-carrying operand.', 'C11': 'Wave 6: slab thickness of very small numerical magnitude in its own unit.', 'C12': 'Wave 6: other groups named before/after mesh in the select dictionary.', 'C13': 'Wave 6: descriptors in which one name is the beginning of another.', 'C14': 'Wave 6: sink unit-line entries that are general expressions in m, l, t.', 'C15': 'Wave 6: name lists that only one reader of the group can satisfy; gravity files present.', 'C16': 'Wave 6: a group whose own positions are in another unit than those of the groups before it.', 'C17': 'Wave 6: in-place updates of 0-d and 1-element Arrays held by two groups.', 'C18': 'Wave 6: the configuration moved 2^40 away from the coordinate origin.', 'C19': 'Wave 6: matplotlib norm objects at layer and call level in unrendered calls.', 'C20': 'Wave 6: pairs handed to update() and the constructor as list, zip, generator and items view.'}


WAVE12 = {'C04': 'Wave 12: the public-API layer repeated in an environment whose user configuration writes the mesh coordinates in au; the internal seam follows its signature.', 'C05': 'Wave 12: a multi-layer call refused at its second layer, then the same call done right.', 'C11': 'Wave 12: the reduction chosen on the layer and not repeated in the call.', 'C12': 'Wave 12: a level criterion next to a lower bound on dx.', 'C13': 'Wave 12: a reduced selection list repeated under python -O and PYTHONOPTIMIZE=2.', 'C14': 'Wave 12: an environment whose unit library is a defaultdict with wildcard entries.', 'C16': 'Wave 12: shallow copies of a dataset whose mesh is then replaced.'}
WAVE11 = {'C02': 'Wave 11: in-place updates that numpy itself refuses leave the operand as it was.', 'C05': 'Wave 11: a reduced case list with the JIT switched off (NUMBA_DISABLE_JIT=1) and under -O.', 'C06': 'Wave 11: members that are pure numbers with a scale (degrees, percent).', 'C07': 'Wave 11: every comparison repeated after a refused operation in the same process.', 'C09': 'Wave 11: Vectors in percent and cm/m next to bare numbers.', 'C10': 'Wave 11: an environment whose user configuration defines constants under short names with its own values.', 'C12': 'Wave 11: the same select dictionary, corrected, after a load that was refused part-way.', 'C13': 'Wave 11: a group left out as a whole is absent, not empty.', 'C14': 'Wave 11: integer and byte particle records under names whose unit has a scale.', 'C15': 'Wave 11: environment variables the library reads are discovered and each is set for a reduced exploration.', 'C16': 'Wave 11: sizes and radii in compound unit strings.', 'C20': 'Wave 11: the container explorations repeated under python -O and PYTHONOPTIMIZE=2.'}
WAVE10 = {'C01': 'Wave 10: output number -1 in a run directory that receives new outputs between loads of one process.', 'C03': 'Wave 10: float layers (scalar, vector) after integer or float32 layers in one call.', 'C04': 'Wave 10: one region object (bound methods, closure) moved between loads; a cross-run group on which the pre-selection prunes.', 'C08': 'Wave 10: Vectors whose components are rows of one array in another order, reversed or strided views, rearranged components of a converted Vector.', 'C09': 'Wave 10: components attached one at a time out of the order x, y, z, or replaced.', 'C11': 'Wave 10: the same Layer object handed to a sequence of maps with different operations.', 'C12': 'Wave 10: one level function object across loads, the levels it accepts changed in between.', 'C14': 'Wave 10: violations found in an environment run carry the run as their history.', 'C18': "Wave 10: 'top' / 'side' on 65536 to 150001 cells (exact integer sums).", 'C19': 'Wave 10: layers that set every option themselves; the snapshot follows attribute objects of a layer.'}
WAVE9 = {'C05': 'Wave 9: layers carrying 1-d histogram options (weights, bins) and the same options given to the call.', 'C07': 'Wave 9: the unit-less operand on either side, through the operator and the numpy function, with boolean operands (masks).', 'C10': 'Wave 9: comparison functions follow the comparison operators (a number without a unit is a pure number; refused next to a dimensional Array).', 'C14': 'Wave 9: sink unit-line entries with a numeric factor in front.', 'C15': 'Wave 9: loads that find nothing for a requested group; requested groups are read off the call, not off what the library returns.', 'C17': 'Wave 9: every holder of a Vector observes in-place updates, value and unit (identity of the Vector object is not required).', 'C19': 'Wave 9: rendered lattice (plot=True): the colour limits that reach matplotlib, per rendering mode.'}
WAVE8 = {'C04': 'Wave 8: value predicates (>= and <=) on every stored variable of outputs whose variable names extend each other.', 'C06': 'Wave 8: index Arrays that carry a unit (the result of np.argsort on a member) as indices and sorting keys.', 'C08': "Wave 8: unit strings are read by the model's own parser; the library's unit for a string must be the unit the string names.", 'C10': 'Wave 8: insert, the stack family, fmin, hypot, copysign, fmod/mod/remainder; operands handed over by keyword (a_min=, values=, initial=, prepend=, fill_value=, weights=).', 'C12': 'Wave 8: every non-contiguous set of accepted levels, l != k and (l == a) | (l == b).', 'C13': 'Wave 8: a selection that loads what the full load refuses is a violation instead of a harness error.', 'C15': 'Wave 8: sorting requests that name groups the call does not load.', 'C16': 'Wave 8: box sizes each in a unit of its own.', 'C17': 'Wave 8: in-place products of two dimensional operands that are pure numbers with a hidden factor.', 'C18': 'Wave 8: windows with dx != dy through map on cells at four distances from the centre.', 'C19': 'Wave 8: the option lattice repeated for layers whose data is a Vector.'}
WAVE7 = {'C03': 'Wave 7: vector layers with every axis triple (left-handed ones included).', 'C05': 'Wave 7: layers of different element types in one call.', 'C06': 'Wave 7: a second group sharing member objects with the explored one must keep its rows.', 'C09': 'Wave 7: operators with an Array on the left of a Vector, plain and augmented.', 'C11': 'Wave 7: thick maps with several million depth samples (default 256 x 256 image, 77 samples).', 'C12': 'Wave 7: level caps below/at/above levelmin with narrow windows on multi-cpu Hilbert outputs (levelmin 2 and 3).', 'C14': 'Wave 7: particle selects that drop the first descriptor variable or keep the last two.', 'C15': 'Wave 7: references computed one per pristine process; one-axis slab predicates.', 'C16': 'Wave 7: a dataset assembled from the groups of another one, with a mesh of its own.', 'C20': 'Wave 7: violations that need what the worker executed before them are replayed after it and reported as history dependent.'}


def main():
    checks = []
    na = []
    for pid in ALL:
        ent = CHECKS.get(pid)
        if not ent or not ent[0]:
            na.append(
                {
                    "property_id": pid,
                    "reason": "check not built yet in this revision of /verif (planned, see DESIGN.md §3); nothing is claimed for it",
                }
            )
            continue
        _, cat, tech, text, note, ref = ent
        if pid in LATER:
            note = note + " Added after seeded waves 3-4: " + LATER[pid]
        if pid in WAVE5:
            note = note + " " + WAVE5[pid]
        if pid in WAVE6:
            note = note + " " + WAVE6[pid]
        if pid in WAVE7:
            note = note + " " + WAVE7[pid]
        if pid in WAVE8:
            note = note + " " + WAVE8[pid]
        if pid in WAVE9:
            note = note + " " + WAVE9[pid]
        if pid in WAVE10:
            note = note + " " + WAVE10[pid]
        if pid in WAVE11:
            note = note + " " + WAVE11[pid]
        if pid in WAVE12:
            note = note + " " + WAVE12[pid]
        checks.append(
            {
                "property_id": pid,
                "quick_cmd": f"./check {pid} --tier quick",
                "thorough_cmd": f"./check {pid} --tier thorough",
                "evidence_file": f"/verif/evidence/{pid}.json",
                "replay_cmd_template": f"./check {pid} --replay {{path}}",
                "engine": "mc",
                "level_claimed": {"category": cat, "text": text, "design_ref": ref},
                "level_note": note,
                "technique": tech,
            }
        )
    man = {
        "version": 1,
        "setup_cmd": "./tools/setup.sh",
        "hooks": {
            "guard": "OSYRIS_VERIF",
            "enable": "no source hooks are needed: checks import osyris from /repo/src (VERIF_REPO overrides) with HOME "
            "redirected to a scratch directory; the guard name is reserved and unused",
            "baseline_off_cmd": "cd /repo && /venv/bin/python -m pytest -ra -q -p no:cacheprovider --timeout=900 --continue-on-collection-errors",
            "source_commits": [],
            "add_only": True,
        },
        "engines": [
            {
                "name": "mc",
                "path": "/verif/mc",
                "serves_properties": [c["property_id"] for c in checks],
                "kind_free_text": "hand-written bounded exhaustive explorers driving the real osyris code: E1 small-scope input "
                "enumerator, E2 explicit-state history explorer, E3 prange schedule explorer; reference models M1-M4",
            }
        ],
        "checks": checks,
        "not_applicable": na,
        "notes": "All checks are pure Python and run from /repo's working tree; see DESIGN.md. known_findings.json lists "
        "recorded defects and fixed ones.",
    }
    with open(os.path.join(HERE, "MANIFEST.json"), "w") as f:
        json.dump(man, f, indent=1)
        f.write("\n")


if __name__ == "__main__":
    main()

#!/bin/bash
# usage: tools/run_all.sh [quick|thorough]  — runs every registered check, prints one line each
tier="${1:-quick}"
cd "$(dirname "${BASH_SOURCE[0]}")/.."
rc=0
for p in C01 C02 C03 C04 C05 C06 C07 C08 C09 C10 C11 C12 C13 C14 C15 C16 C17 C18 C19 C20; do
  s=$(date +%s)
  out=$(./check $p --tier $tier 2>&1); code=$?
  e=$(date +%s)
  echo "$p exit=$code $((e-s))s $(echo "$out" | grep -E '^(VIOLATION|KNOWN-FINDING|harness)' | head -3 | tr '\n' ' ')"
  [ $code -ne 0 ] && rc=1
done
exit $rc

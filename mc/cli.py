"""CLI: ./check <Cxx> [--tier quick|thorough] [--replay file]"""
import argparse
import hashlib
import importlib
import json
import os
import re
import subprocess
import sys
import time

from . import runner
from .runner import VERIF_DIR, HarnessError, jsonable


def tree_digest():
    """Digest of the osyris sources the check ran against."""
    src = os.path.join(runner.repo_root(), "src", "osyris")
    h = hashlib.sha256()
    for root, dirs, files in sorted(os.walk(src)):
        dirs.sort()
        for f in sorted(files):
            if f.endswith(".py"):
                p = os.path.join(root, f)
                h.update(os.path.relpath(p, src).encode())
                with open(p, "rb") as fh:
                    h.update(fh.read())
    return h.hexdigest()[:16]


class Ctx:
    def __init__(self, prop, tier, seed):
        self.prop = prop
        self.tier = tier
        self.seed = seed
        self.thorough = tier == "thorough"
        self.pool = runner.Pool()
        self.timer = runner.Timer()

    def base(self, **kw):
        d = {"tier": self.tier, "seed": self.seed}
        d.update(kw)
        return d


def load_known():
    p = os.path.join(VERIF_DIR, "known_findings.json")
    if not os.path.exists(p):
        return []
    with open(p) as f:
        data = json.load(f)
    return data.get("known", [])


def match_known(prop, v, known):
    for k in known:
        if k.get("property") != prop:
            continue
        if "sig" in k and k["sig"] == v["sig"]:
            return k
        if "sig_re" in k and re.fullmatch(k["sig_re"], v["sig"]):
            return k
    return None


def write_replay(prop, v):
    d = os.path.join(VERIF_DIR, "replays", prop)
    os.makedirs(d, exist_ok=True)
    body = {
        "property": prop,
        "sig": v["sig"],
        "case": v["case"],
        "detail": v.get("detail"),
        "task_history": v.get("task_history") if v.get("history_dependent") else None,
        "history_dependent": bool(v.get("history_dependent", False)),
        "count_in_run": v.get("count"),
        "tree_digest": tree_digest(),
        "repo": runner.repo_root(),
    }
    txt = json.dumps(jsonable(body), indent=1, sort_keys=True)
    name = hashlib.sha256(
        json.dumps(jsonable([v["sig"], v["case"]]), sort_keys=True).encode()
    ).hexdigest()[:12]
    path = os.path.join(d, name + ".json")
    with open(path, "w") as f:
        f.write(txt + "\n")
    return path


def write_evidence(prop, tier, seed, level, coverage, assumptions, wall, nviol, extra=None):
    # /verif/evidence describes runs on /repo's working tree only: a run pointed at another tree (VERIF_REPO, as
    # the seeded-change regression does) leaves its evidence next to the replays instead
    d = os.environ.get("VERIF_EVIDENCE_DIR") or (
        os.path.join(VERIF_DIR, "evidence")
        if os.path.realpath(runner.repo_root()) == "/repo"
        else os.path.join(VERIF_DIR, "replays", "evidence-other-tree")
    )
    os.makedirs(d, exist_ok=True)
    ev = {
        "property_id": prop,
        "tier": tier,
        "seed": int(seed),
        "level": level,
        "coverage": jsonable(coverage),
        "assumptions": list(assumptions),
        "wall_s": round(float(wall), 3),
        "violations": int(nviol),
    }
    if extra:
        ev.update(jsonable(extra))
    tmp = os.path.join(d, prop + ".json.tmp")
    with open(tmp, "w") as f:
        json.dump(ev, f, indent=1, sort_keys=True)
        f.write("\n")
    os.replace(tmp, os.path.join(d, prop + ".json"))


def confirm(mod, v, pool):
    """Re-execute the failing case twice in other processes; it must reproduce. A violation that does not
    reproduce in isolation is re-tried by re-running, in a fresh process, the whole shard of the enumeration it
    was found in (same order): if it reappears it depends on the calls made before it (state kept by the
    library between calls) and is reported as such; otherwise it is a harness error."""
    # each replay runs in a process of its own that has executed nothing else
    sigs = pool.map_fresh(mod.__name__, "replay_sigs", [v["case"], v["case"]])
    if all(v["sig"] in s for s in sigs):
        return True, sigs
    # the earliest recorded case may have been an artefact of state left in its worker by earlier cases: look for
    # the earliest recorded case with this signature that reproduces in a pristine process
    alts = v.get("alternates") or []
    if alts:
        res = pool.map_fresh(mod.__name__, "replay_sigs", alts)
        for case, s1 in zip(alts, res):
            if v["sig"] in s1:
                s2 = pool.map_fresh(mod.__name__, "replay_sigs", [case])[0]
                if v["sig"] in s2:
                    v["case"] = case
                    return True, [s1, s2]
    hist = v.get("task_history")
    if hist:
        accs = []
        for _ in range(2):
            fresh = runner.Pool(1)  # a new process each time
            try:
                accs.append(fresh.map("mc.runner", "run_task_sequence", [hist])[0])
            finally:
                fresh.close()
        if all(v["sig"] in a.violations for a in accs):
            v["history_dependent"] = True
            return True, sigs
    return False, sigs


def main(argv=None):
    ap = argparse.ArgumentParser()
    ap.add_argument("prop")
    ap.add_argument("--tier", default=os.environ.get("VERIF_TIER") or "quick")
    ap.add_argument("--replay", default=None)
    args = ap.parse_args(argv)
    prop = args.prop.upper()
    tier = args.tier if args.tier in ("quick", "thorough") else "quick"
    try:
        seed = int(os.environ.get("VERIF_SEED", "0") or 0)
    except ValueError:
        seed = 0
    os.environ["VERIF_TIER"] = tier
    os.environ["VERIF_SEED"] = str(seed)

    runner.setup_env()
    try:
        runner.assert_repo_is_used()
        mod = importlib.import_module(f"mc.props.{prop}")
    except ModuleNotFoundError as e:
        print(f"harness error: {e}")
        return 2

    if args.replay:
        with open(args.replay) as f:
            body = json.load(f)
        sigs = list(mod.replay_sigs(body["case"]))
        if body["sig"] not in sigs and body.get("history_dependent") and body.get("task_history"):
            # the recorded violation needs the calls that preceded it: re-run the recorded task sequence
            p1 = runner.Pool(1)
            try:
                acc = p1.map("mc.runner", "run_task_sequence", [body["task_history"]])[0]
            finally:
                p1.close()
            sigs += list(acc.violations.keys())
        print(f"replay {args.replay}: signatures observed now: {sorted(set(sigs))}")
        if body["sig"] in sigs:
            print(f"VIOLATION property={prop} replay={args.replay}")
            return 1
        print("replay: the recorded violation does not occur on this tree")
        return 0

    ctx = Ctx(prop, tier, seed)
    rc = 0
    try:
        res = mod.run(ctx)
        violations = res.get("violations", [])
        errors = res.get("errors", [])
        if errors:
            for e in errors[:5]:
                print("harness error:", e)
            raise HarnessError("check reported internal errors")
        known = load_known()
        new, kf = [], []
        for v in violations:
            ok, sigs = confirm(mod, v, ctx.pool)
            if not ok:
                raise HarnessError(
                    f"violation {v['sig']} did not reproduce on replay: {sigs}; case={v['case']}"
                )
            k = match_known(prop, v, known)
            (kf if k else new).append((v, k))
        for v, k in kf:
            print(f"KNOWN-FINDING: property={prop} {k['what']} [sig={v['sig']} count={v.get('count')}]")
        for v, _ in new:
            path = write_replay(prop, v)
            if v.get("history_dependent"):
                print(f"  detail: sig={v['sig']} occurs only after the preceding cases of its enumeration shard (the library keeps state between calls); replay re-runs that shard")
            print(f"  detail: sig={v['sig']} count={v.get('count')} case={json.dumps(jsonable(v['case']))[:600]}")
            print(f"  detail: {json.dumps(jsonable(v.get('detail')))[:800]}")
            print(f"VIOLATION property={prop} replay={path}")
            rc = 1
        cov = res["coverage"]
        cov.setdefault("tree_digest", tree_digest())
        cov["known_findings_matched"] = [v["sig"] for v, _ in kf]
        write_evidence(
            prop, tier, seed, res["level"], cov, res.get("assumptions", []),
            ctx.timer(), len(new),
        )
        summ = {k: cov[k] for k in cov if isinstance(cov[k], (int, float, bool))}
        print(f"{prop} tier={tier} seed={seed} wall={ctx.timer():.1f}s {json.dumps(summ)}")
        if rc == 0:
            print(f"OK property={prop}")
    except HarnessError as e:
        print(f"harness error: {e}")
        rc = 2
    finally:
        ctx.pool.close()
    return rc


if __name__ == "__main__":
    sys.exit(main())

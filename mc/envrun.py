"""Run one worker function of a check in an interpreter of its own, started in a prescribed environment.

    python [flags] -m mc.envrun <module> <function> <payload.json> <result.pickle>

Used through runner.run_in_environment(): the environment around the library is part of the input space (interpreter flags such as
-O, the contents of ~/.osyris, the working directory); a worker function is run there and its accumulator is handed back.
"""
import importlib
import json
import os
import pickle
import sys


class _RecordingEnviron:
    """Stands in for os.environ and notes which variables are looked up from the library's own source files: the environment
    variables a library reads are inputs of it, and they can only be varied once they are known."""

    def __init__(self, real, src_root, seen):
        self._real, self._src, self._seen = real, src_root, seen

    def _note(self, key):
        f = sys._getframe(2)
        for _ in range(4):
            if f is None:
                break
            if f.f_code.co_filename.startswith(self._src):
                self._seen.add(str(key))
                break
            f = f.f_back

    def __getitem__(self, key):
        self._note(key)
        return self._real[key]

    def get(self, key, default=None):
        self._note(key)
        return self._real.get(key, default)

    def __contains__(self, key):
        self._note(key)
        return key in self._real

    def __getattr__(self, name):
        return getattr(self._real, name)

    def __setitem__(self, key, value):
        self._real[key] = value

    def __delitem__(self, key):
        del self._real[key]

    def __iter__(self):
        return iter(self._real)

    def __len__(self):
        return len(self._real)


def main():
    modname, funcname, payload_file, result_file = sys.argv[1:5]
    from mc import runner

    # HOME is prepared by the caller (it may hold a user configuration): keep it
    home = os.environ["HOME"]
    runner.setup_env(os.environ["VERIF_SCRATCH"])
    os.environ["HOME"] = home
    payload = json.load(open(payload_file))
    record = os.environ.get("VERIF_RECORD_ENVIRON")
    seen = set()
    if record:
        os.environ = _RecordingEnviron(os.environ, os.path.join(runner.repo_root(), "src") + os.sep, seen)
    mod = importlib.import_module(modname)
    acc = getattr(mod, funcname)(payload)
    if record:
        os.environ = os.environ._real
        with open(record, "w") as f:
            json.dump(sorted(seen), f)
    with open(result_file, "wb") as f:
        pickle.dump(acc, f)


if __name__ == "__main__":
    main()

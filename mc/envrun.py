"""Run one worker function of a check in an interpreter of its own, started in a prescribed environment.

    python [flags] -m mc.envrun <module> <function> <payload.json> <result.pickle>

Used through runner.run_in_environment(): the environment around the library is part of the input space (interpreter flags such as
-O, the contents of ~/.osyris, the working directory); a worker function is run there and its accumulator is handed back.
"""
import importlib
import json
import os
import pickle
import sys


def main():
    modname, funcname, payload_file, result_file = sys.argv[1:5]
    from mc import runner

    # HOME is prepared by the caller (it may hold a user configuration): keep it
    home = os.environ["HOME"]
    runner.setup_env(os.environ["VERIF_SCRATCH"])
    os.environ["HOME"] = home
    payload = json.load(open(payload_file))
    mod = importlib.import_module(modname)
    acc = getattr(mod, funcname)(payload)
    with open(result_file, "wb") as f:
        pickle.dump(acc, f)


if __name__ == "__main__":
    main()

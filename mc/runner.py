"""Process model: environment ownership, scratch space, worker pool, accumulators.

Every check runs the *real* osyris code from VERIF_REPO (default /repo) with
HOME pointing at a fresh scratch directory, so that osyris.config copies and
imports the working tree's config/defaults.py instead of a stale user file.
"""
import atexit
import importlib
import itertools
import json
import os
import shutil
import signal
import sys
import tempfile
import time
import traceback
from collections import Counter
from concurrent.futures import ProcessPoolExecutor
import multiprocessing as mp

VERIF_DIR = os.path.dirname(os.path.dirname(os.path.abspath(__file__)))
NCORES = min(16, os.cpu_count() or 1)
_SCRATCH = None


def repo_root():
    return os.environ.get("VERIF_REPO", "/repo")


def setup_env(scratch=None):
    """Idempotent; must run before `import osyris` in every process."""
    global _SCRATCH
    if scratch is None:
        scratch = os.environ.get("VERIF_SCRATCH")
    if scratch is None:
        base = os.environ.get("VERIF_TMP", tempfile.gettempdir())
        scratch = tempfile.mkdtemp(prefix="osyris-verif-", dir=base)
        os.environ["VERIF_SCRATCH"] = scratch
        os.environ["VERIF_SCRATCH_OWNER"] = str(os.getpid())
        atexit.register(cleanup_scratch)
        for sig in (signal.SIGTERM, signal.SIGINT):
            try:
                signal.signal(sig, _sig_exit)
            except Exception:
                pass
    _SCRATCH = scratch
    home = os.path.join(scratch, "home")
    os.makedirs(home, exist_ok=True)
    os.environ["HOME"] = home
    os.environ.setdefault("MPLBACKEND", "Agg")
    os.environ.setdefault("PYTHONHASHSEED", "0")
    os.environ.setdefault("NUMBA_NUM_THREADS", "1")
    os.environ["MPLCONFIGDIR"] = os.path.join(scratch, "mpl")
    os.makedirs(os.environ["MPLCONFIGDIR"], exist_ok=True)
    src = os.path.join(repo_root(), "src")
    if not os.path.isdir(os.path.join(src, "osyris")):
        raise SystemExit(f"harness error: no osyris sources under {src}")
    if sys.path[0] != src:
        sys.path.insert(0, src)
    if VERIF_DIR not in sys.path:
        sys.path.insert(1, VERIF_DIR)
    return scratch


def _sig_exit(signum, frame):
    cleanup_scratch()
    os._exit(128 + signum)


def cleanup_scratch():
    s = os.environ.get("VERIF_SCRATCH")
    if s and os.environ.get("VERIF_SCRATCH_OWNER") == str(os.getpid()):
        shutil.rmtree(s, ignore_errors=True)


def scratch_dir(name=None):
    """A private directory inside the run's scratch root."""
    root = _SCRATCH or setup_env()
    if name is None:
        return tempfile.mkdtemp(dir=root)
    p = os.path.join(root, name)
    os.makedirs(p, exist_ok=True)
    return p


def assert_repo_is_used():
    """Guard against the editable install shadowing VERIF_REPO."""
    import osyris

    want = os.path.realpath(os.path.join(repo_root(), "src", "osyris"))
    got = os.path.realpath(os.path.dirname(osyris.__file__))
    if want != got:
        raise SystemExit(f"harness error: osyris imported from {got}, wanted {want}")
    cfg = sys.modules["osyris.config"]

    cfgfile = os.path.realpath(cfg.user_config.__file__)
    if not cfgfile.startswith(os.path.realpath(os.environ["HOME"])):
        raise SystemExit(f"harness error: user config taken from {cfgfile}")


def run_in_environment(modname, funcname, payload, flags=(), env=None, home_files=None, cwd=None, timeout=1800):
    """Run `modname.funcname(payload)` in a fresh interpreter started with `flags` (e.g. ["-O"]), extra environment variables
    `env`, and a HOME of its own pre-populated with `home_files` ({relative path: text}). -> (Acc or None, error text)"""
    import pickle
    import subprocess

    root = scratch_dir()
    home = os.path.join(root, "home")
    os.makedirs(home, exist_ok=True)
    for rel, text in (home_files or {}).items():
        fn = os.path.join(home, rel)
        os.makedirs(os.path.dirname(fn), exist_ok=True)
        with open(fn, "w") as f:
            f.write(text)
    pf, rf = os.path.join(root, "payload.json"), os.path.join(root, "result.pickle")
    with open(pf, "w") as f:
        json.dump(payload, f)
    e = dict(os.environ, HOME=home, PYTHONPATH=VERIF_DIR + os.pathsep + os.path.join(repo_root(), "src"), **(env or {}))
    e.pop("VERIF_SCRATCH_OWNER", None)
    p = subprocess.run([sys.executable, *flags, "-m", "mc.envrun", modname, funcname, pf, rf], env=e, cwd=cwd or VERIF_DIR,
                       capture_output=True, text=True, timeout=timeout)
    try:
        if p.returncode != 0 or not os.path.exists(rf):
            return None, (p.stderr or p.stdout)[-1500:]
        with open(rf, "rb") as f:
            return pickle.load(f), None
    finally:
        shutil.rmtree(root, ignore_errors=True)


def discover_environment_reads(modname, funcname, payload):
    """The names of the environment variables that the library's own source files look up while `modname.funcname(payload)` runs
    (in an interpreter of its own). -> sorted list of names"""
    import tempfile

    fd, path = tempfile.mkstemp(prefix="environ-reads-", suffix=".json", dir=scratch_dir())
    os.close(fd)
    try:
        acc, err = run_in_environment(modname, funcname, payload, env={"VERIF_RECORD_ENVIRON": path})
        if acc is None:
            raise HarnessError(f"environment probe failed: {err}")
        with open(path) as f:
            txt = f.read()
        return json.loads(txt) if txt.strip() else []
    finally:
        try:
            os.remove(path)
        except OSError:
            pass


# interpreter environments a check may re-run a reduced case list in (the state of the world around the call is part of the input)
def _user_units_config():
    """A user configuration: the working tree's defaults plus exact unit entries for variables that an earlier wildcard
    entry also matches (an exact name must win over a pattern), and stale look-alike files that must be ignored."""
    text = open(os.path.join(repo_root(), "src", "osyris", "config", "defaults.py")).read()
    extra = (
        '    library["velocity_divergence"] = (1.0 / unit_t) * units("1 / s")\n'
        '    library["position_tag"] = 1.0 * units("dimensionless")\n'
        '    library["radiative_energy_fraction"] = 1.0 * units("dimensionless")\n'
        "    return library\n"
    )
    if "    return library\n" not in text:
        raise RuntimeError("harness: defaults.py has no 'return library' to extend")
    return {".osyris/config_osyris.py": text.replace("    return library\n", extra, 1)}


def _user_constants_config():
    """A trimmed, hand-written user configuration: the working tree's defaults, except that configure_constants defines only two
    constants, under their short names and with values of the user's own (M_sun = 2.0e33 g, R_sun = 7.0e10 cm)."""
    import re

    text = open(os.path.join(repo_root(), "src", "osyris", "config", "defaults.py")).read()
    new, n = re.subn(r"def configure_constants\(units\):\n(?:(?:    .*|)\n)+?(?=\n\ndef )",
                     'def configure_constants(units):\n    units.define("M_sun = 2.0e+33 * g")\n    units.define("R_sun = 7.0e+10 * cm")\n', text, count=1)
    if n != 1:
        raise RuntimeError("harness: defaults.py has no configure_constants to replace")
    return {".osyris/config_osyris.py": new}


def _user_defaultdict_config():
    """A user configuration as in the documentation's example: configure_units returns a defaultdict (unknown names are
    dimensionless) holding the same entries, wildcard names included."""
    text = open(os.path.join(repo_root(), "src", "osyris", "config", "defaults.py")).read()
    extra = (
        "    from collections import defaultdict\n\n"
        '    library = defaultdict(lambda: 1.0 * units("dimensionless"), library)\n'
        "    return library\n"
    )
    if "    return library\n" not in text:
        raise RuntimeError("harness: defaults.py has no 'return library' to extend")
    return {".osyris/config_osyris.py": text.replace("    return library\n", extra, 1)}


def _user_positions_config():
    """A user configuration that writes the mesh coordinates and cell sizes in astronomical units (entries position, position_*, dx) and
    leaves the one-letter entries x, y, z as they are."""
    text = open(os.path.join(repo_root(), "src", "osyris", "config", "defaults.py")).read()
    extra = (
        '    for name in ("position", "position_*", "dx"):\n'
        '        library[name] = length.to("au")\n'
        "    return library\n"
    )
    if "    return library\n" not in text:
        raise RuntimeError("harness: defaults.py has no 'return library' to extend")
    return {".osyris/config_osyris.py": text.replace("    return library\n", extra, 1)}


ENVIRONMENTS = {
    "python-O": {"flags": ["-O"]},
    "PYTHONOPTIMIZE=2": {"env": {"PYTHONOPTIMIZE": "2"}},
    "user-units": {"home_files": _user_units_config},
    # numba's switch for running its kernels as plain Python (debugging, coverage): same results, only slower
    "NUMBA_DISABLE_JIT=1": {"env": {"NUMBA_DISABLE_JIT": "1"}},
    "user-constants": {"home_files": _user_constants_config},
    "user-units-defaultdict": {"home_files": _user_defaultdict_config},
    "user-positions-in-au": {"home_files": _user_positions_config},
}


def environment_spec(envname):
    """The named environment, or NAME=value for an environment variable found by discover_environment_reads()."""
    if envname in ENVIRONMENTS:
        return ENVIRONMENTS[envname]
    name, eq, value = envname.partition("=")
    if eq and name.replace("_", "a").isalnum():
        return {"env": {name: value}}
    raise KeyError(envname)


def environment_acc(modname, funcname, payload, envname):
    """Run a worker in the named environment; violations are tagged with it so that a replay happens there too."""
    spec = environment_spec(envname)
    hf = spec.get("home_files")
    acc, err = run_in_environment(modname, funcname, dict(payload, environment=envname, shard=0, nshards=1), flags=spec.get("flags", ()), env=spec.get("env"),
                                  home_files=hf() if callable(hf) else hf)
    if acc is None:
        acc = Acc()
        acc.error(f"{modname}.{funcname} could not run in environment {envname!r}: {err}")
        return acc
    for sig, lst in list(acc.violations.items()):
        new = sig + ":in-environment:" + envname
        acc.violations[new] = acc.violations.pop(sig)
        acc.vcount[new] = acc.vcount.pop(sig)
        for _, rec in acc.violations[new]:
            rec["sig"] = new
            rec["case"] = dict(rec["case"], environment=envname) if isinstance(rec["case"], dict) else rec["case"]
            rec.pop("task", None)
            # a violation that does not reproduce on its own is re-run after everything this environment run executed before it:
            # the whole run, in a new interpreter of the same environment
            rec["task_history"] = [["mc.runner", "environment_task", {"modname": modname, "funcname": funcname, "payload": dict(payload), "envname": envname}]]
    return acc


class SerialPool:
    """A stand-in for Pool inside an environment run (one interpreter, no workers): tasks are executed in place."""

    n = 1

    def map(self, modname, funcname, payloads):
        mod = importlib.import_module(modname)
        return [getattr(mod, funcname)(p) for p in payloads]

    def close(self):
        pass


def environment_task(p):
    """Worker: one whole environment run (used to re-run the history of a violation found in it)."""
    return environment_acc(p["modname"], p["funcname"], p["payload"], p["envname"])


class EnvironmentRuns:
    """Start the environment runs in the background (one interpreter each) while the pool does the main enumeration."""

    def __init__(self, modname, funcname, payload, envnames):
        from concurrent.futures import ThreadPoolExecutor

        self.ex = ThreadPoolExecutor(max_workers=max(1, len(envnames)))
        self.futs = [self.ex.submit(environment_acc, modname, funcname, payload, e) for e in envnames]

    def results(self):
        out = [f.result() for f in self.futs]
        self.ex.shutdown()
        return out


def replay_in_environment(modname, case):
    """replay_sigs of a case recorded in a named environment"""
    envname = case["environment"]
    spec = environment_spec(envname)
    inner = {k: v for k, v in case.items() if k != "environment"}
    hf = spec.get("home_files")
    acc, err = run_in_environment(modname, "environment_replay", {"case": inner, "environment": envname}, flags=spec.get("flags", ()), env=spec.get("env"),
                                  home_files=hf() if callable(hf) else hf)
    if acc is None:
        raise RuntimeError(f"replay in environment {envname!r} failed: {err}")
    return [s + ":in-environment:" + envname for s in acc]


# --------------------------------------------------------------------------- pool


def _worker_init(scratch, env):
    os.environ.update(env)
    setup_env(scratch)
    signal.signal(signal.SIGINT, signal.SIG_IGN)


CURRENT_TASK = None  # (modname, funcname, payload) of the task this worker is executing
TASK_HISTORY = []  # every task this worker process has executed so far, in order


def run_task_sequence(tasks):
    """Worker: execute a recorded sequence of tasks in this (fresh) process; returns the last result."""
    res = None
    for t in tasks:
        status, res = _dispatch(tuple(t))
        if status != "ok":
            raise RuntimeError(res)
    return res


def _dispatch(task):
    global CURRENT_TASK
    modname, funcname, payload = task
    try:
        mod = importlib.import_module(modname)
        CURRENT_TASK = task if len(repr(payload)) < 2000 else None
        if CURRENT_TASK is not None:
            TASK_HISTORY.append(list(task))
        return ("ok", getattr(mod, funcname)(payload))
    except BaseException:
        return ("err", traceback.format_exc())
    finally:
        CURRENT_TASK = None


class HarnessError(Exception):
    pass


class Pool:
    def __init__(self, nworkers=None):
        self.n = nworkers or int(os.environ.get("VERIF_JOBS", NCORES))
        self._ex = None

    def _ensure(self):
        if self._ex is None:
            scratch = setup_env()
            env = {
                k: os.environ[k]
                for k in (
                    "VERIF_REPO",
                    "VERIF_SCRATCH",
                    "PYTHONHASHSEED",
                    "MPLBACKEND",
                    "NUMBA_NUM_THREADS",
                    "VERIF_TIER",
                    "VERIF_SEED",
                )
                if k in os.environ
            }
            self._ex = ProcessPoolExecutor(
                max_workers=self.n,
                mp_context=mp.get_context("spawn"),
                initializer=_worker_init,
                initargs=(scratch, env),
            )
        return self._ex

    def map(self, modname, funcname, payloads):
        """Run modname.funcname(payload) for every payload; order preserved."""
        ex = self._ensure()
        tasks = [(modname, funcname, p) for p in payloads]
        out = []
        for status, res in ex.map(_dispatch, tasks):
            if status != "ok":
                raise HarnessError("worker failed:\n" + res)
            out.append(res)
        return out

    def shards(self, modname, funcname, base_payload, nshards=None):
        n = nshards or self.n
        payloads = [dict(base_payload, shard=i, nshards=n) for i in range(n)]
        return self.map(modname, funcname, payloads)

    def map_fresh(self, modname, funcname, payloads):
        """Like map, but every task runs in a process of its own that has executed nothing else."""
        scratch = setup_env()
        env = {k: os.environ[k] for k in ("VERIF_REPO", "VERIF_SCRATCH", "PYTHONHASHSEED", "MPLBACKEND", "NUMBA_NUM_THREADS", "VERIF_TIER", "VERIF_SEED")
               if k in os.environ}
        ex = ProcessPoolExecutor(max_workers=self.n, mp_context=mp.get_context("spawn"), initializer=_worker_init,
                                 initargs=(scratch, env), max_tasks_per_child=1)
        try:
            out = []
            for status, res in ex.map(_dispatch, [(modname, funcname, p) for p in payloads]):
                if status != "ok":
                    raise HarnessError("worker failed:\n" + res)
                out.append(res)
            return out
        finally:
            ex.shutdown(wait=True, cancel_futures=True)

    def close(self):
        if self._ex is not None:
            self._ex.shutdown(wait=True, cancel_futures=True)
            self._ex = None


# ------------------------------------------------------------------- accumulators

MAX_PER_SIG = 24


class Acc:
    """Mergeable accumulator of what one shard explored."""

    def __init__(self):
        self.evaluations = 0
        self.nontrivial = 0
        self.outcomes = Counter()
        self.counters = Counter()
        self.violations = {}  # sig -> list of (idx, dict)
        self.vcount = Counter()
        self.samples = []
        self.errors = []

    def case(self, nontrivial=False, outcome="ok"):
        self.evaluations += 1
        if nontrivial:
            self.nontrivial += 1
        self.outcomes[outcome] += 1

    def count(self, key, n=1):
        self.counters[key] += n

    def violation(self, sig, idx, case, detail):
        self.vcount[sig] += 1
        lst = self.violations.setdefault(sig, [])
        if len(lst) < MAX_PER_SIG:
            rec = {"sig": sig, "case": case, "detail": detail}
            if CURRENT_TASK is not None:
                # lets a violation that only occurs after the preceding cases of its shard (state kept by the
                # library between calls) be reproduced by re-running that shard in a fresh process
                rec["task"] = list(CURRENT_TASK)
                rec["task_history"] = [list(t) for t in TASK_HISTORY[-64:]]
            lst.append((idx, rec))

    def sample(self, s, limit=3):
        if len(self.samples) < limit:
            self.samples.append(s)

    def error(self, text):
        if len(self.errors) < 5:
            self.errors.append(text)

    def merge(self, other):
        self.evaluations += other.evaluations
        self.nontrivial += other.nontrivial
        self.outcomes.update(other.outcomes)
        self.counters.update(other.counters)
        self.vcount.update(other.vcount)
        for sig, lst in other.violations.items():
            mine = self.violations.setdefault(sig, [])
            mine.extend(lst)
            mine.sort(key=lambda t: _idx_key(t[0]))
            del mine[MAX_PER_SIG:]
        for s in other.samples:
            self.sample(s, limit=6)
        self.errors.extend(other.errors)
        return self

    @staticmethod
    def merged(accs):
        a = Acc()
        for b in accs:
            a.merge(b)
        return a

    def violation_list(self):
        """One representative (the earliest in enumeration order) per signature."""
        out = []
        for sig, lst in self.violations.items():
            idx, v = lst[0]
            v = dict(v, count=self.vcount[sig], idx=idx)
            # further recorded cases with the same signature, in enumeration order: used when the first one turns out to
            # depend on what the worker process had executed before it
            v["alternates"] = [w["case"] for _, w in lst[1:]]
            out.append(v)
        out.sort(key=lambda v: _idx_key(v["idx"]))
        return out


def _idx_key(idx):
    if isinstance(idx, (list, tuple)):
        return tuple(idx)
    return (idx,)


def my_share(iterable, payload):
    """Deterministic sharding of an enumeration by index."""
    shard, n = payload.get("shard", 0), payload.get("nshards", 1)
    for i, item in enumerate(iterable):
        if i % n == shard:
            yield i, item


def jsonable(x):
    import numpy as np

    if isinstance(x, dict):
        return {str(k): jsonable(v) for k, v in x.items()}
    if isinstance(x, (list, tuple, set, frozenset)):
        return [jsonable(v) for v in x]
    if isinstance(x, np.ndarray):
        return jsonable(x.tolist())
    if isinstance(x, (np.integer,)):
        return int(x)
    if isinstance(x, (np.floating,)):
        return float(x)
    if isinstance(x, (np.bool_,)):
        return bool(x)
    if isinstance(x, float):
        if x != x or x in (float("inf"), float("-inf")):
            return repr(x)
        return x
    if isinstance(x, (str, int, bool)) or x is None:
        return x
    if isinstance(x, bytes):
        return x.hex()
    return repr(x)


class Timer:
    def __init__(self):
        self.t0 = time.time()

    def __call__(self):
        return time.time() - self.t0

"""M1 — RAMSES output model and byte-exact writer.

The model (an AMR tree with per-oct owners, per-file ghost populations, boundary regions and
per-cell values) *is* the expected answer; `write()` produces the files the real loader reads.
The writer follows RAMSES' backup_amr / backup_hydro / backup_poisson / backup_part record by
record (Fortran sequential records: int32 length | payload | int32 length).

Trusted base: my reading of the RAMSES format (no real output is available offline).
"""
import itertools
import os
import struct

import numpy as np


def fortran_e(x, digits=15):
    """x as Fortran's E23.15 edit descriptor prints it: 0.ddddddddddddddd E+xx (15 significant digits)"""
    if x == 0:
        return "0." + "0" * digits + "E+00"
    m, e = ("%.*E" % (digits - 1, x)).split("E")
    sign = "-" if m.startswith("-") else ""
    m = m.lstrip("-").replace(".", "")
    return "%s0.%sE%+03d" % (sign, m, int(e) + 1)


def child_offsets(ndim):
    """ind -> (ix,iy,iz)[:ndim] in RAMSES order (x fastest)."""
    out = []
    for ind in range(2**ndim):
        iz, iy, ix = ind // 4, (ind % 4) // 2, ind % 2
        out.append((ix, iy, iz)[:ndim])
    return out


class Tree:
    """refined: set of (level, coords) cells that are refined; (0,(0,..)) is always refined.
    Cells of level l have integer coords in [0,2^l)^ndim. Leaves live at levels 1..levelmax."""

    def __init__(self, ndim, levelmax, refined, levelmin=1):
        self.ndim = ndim
        self.levelmax = levelmax
        self.levelmin = levelmin
        root = (0, (0,) * ndim)
        self.refined = frozenset(set(refined) | {root})
        self.offs = child_offsets(ndim)
        for l, c in self.refined:
            assert l <= levelmax - 1, "cells of levelmax cannot be refined"
            if l > 0:
                assert (l - 1, tuple(x // 2 for x in c)) in self.refined, "orphan refined cell"

    def octs(self, level):
        """Octs whose cells are at `level` (1-based) = refined cells of level-1, sorted."""
        return sorted(c for (l, c) in self.refined if l == level - 1)

    def all_octs(self):
        return [(l + 1, c) for (l, c) in sorted(self.refined)]

    def children(self, oct_level, parent):
        return [tuple(2 * p + o for p, o in zip(parent, off)) for off in self.offs]

    def is_refined(self, level, c):
        return (level, c) in self.refined

    def leaves(self, lmax=None):
        """(level, coords, parent) of leaf cells; with lmax: tree truncated at lmax."""
        out = []
        for (l, p) in sorted(self.refined):
            lev = l + 1
            if lmax is not None and lev > lmax:
                continue
            for c in self.children(lev, p):
                refined = (lev, c) in self.refined
                if lmax is not None and lev == lmax:
                    refined = False
                if not refined:
                    out.append((lev, c, p))
        return out

    def cells(self):
        """every cell (leaf or refined) that exists on disk: (level, coords, parent)"""
        out = []
        for (l, p) in sorted(self.refined):
            for c in self.children(l + 1, p):
                out.append((l + 1, c, p))
        return out

    def key(self):
        return (self.ndim, self.levelmax, tuple(sorted(self.refined)))

    def describe(self):
        return {"ndim": self.ndim, "levelmax": self.levelmax, "levelmin": self.levelmin,
                "refined": [[l, list(c)] for l, c in sorted(self.refined) if l > 0]}


def enum_trees(ndim, levelmax, levelmin=1, max_refined_per_level=None):
    """Every tree with root refined, everything below levelmin refined, leaves at <= levelmax.
    max_refined_per_level: optional dict level -> max number of refined cells at that level."""
    offs = child_offsets(ndim)

    def expand(level, parents):
        # parents: refined cells at level-1 ; choose which of their children (level) are refined
        kids = [tuple(2 * p + o for p, o in zip(par, off)) for par in parents for off in offs]
        if level > levelmax - 1:
            yield []
            return
        if level < levelmin:
            subsets = [tuple(kids)]
        else:
            cap = None if max_refined_per_level is None else max_refined_per_level.get(level)
            subsets = []
            for r in range(len(kids) + 1):
                if cap is not None and r > cap:
                    break
                subsets.extend(itertools.combinations(kids, r))
        for sub in subsets:
            here = [(level, c) for c in sub]
            if not sub:
                yield here
                continue
            for rest in expand(level + 1, list(sub)):
                yield here + rest

    root = (0,) * ndim
    for ref in expand(1, [root]):
        yield Tree(ndim, levelmax, ref, levelmin)


def count_trees(ndim, levelmax):
    return sum(1 for _ in enum_trees(ndim, levelmax))


# ------------------------------------------------------------------ output model

DEFAULT_HYDRO = [("density", "d"), ("velocity_x", "d"), ("velocity_y", "d"), ("velocity_z", "d"), ("pressure", "d")]


def hydro_vars_for(ndim, kind="rvp"):
    comps = "xyz"[:ndim]
    if kind == "two":
        return [("density", "d"), ("pressure", "d")]
    if kind == "rvp":
        return [("density", "d")] + [(f"velocity_{c}", "d") for c in comps] + [("pressure", "d")]
    if kind == "mhd":
        return (
            [("density", "d")]
            + [(f"velocity_{c}", "d") for c in comps]
            + [(f"B_{c}_left", "d") for c in comps]
            + [(f"B_{c}_right", "d") for c in comps]
            + [("pressure", "d"), ("temperature", "d")]
        )
    if kind == "rvp-rev":
        # the components of a vector are neither adjacent nor in x, y, z order (custom builds reorder their outputs)
        v = [(f"velocity_{c}", "d") for c in reversed(comps)]
        return [v[0], ("density", "d")] + v[1:2] + [("pressure", "d")] + v[2:]
    if kind == "mhd-rev":
        r = comps[1:] + comps[:1]
        return (
            [(f"B_{c}_left", "d") for c in r]
            + [("density", "d")]
            + [(f"velocity_{c}", "d") for c in reversed(comps)]
            + [(f"B_{c}_right", "d") for c in reversed(r)]
            + [("pressure", "d"), ("temperature", "d")]
        )
    if kind == "user":
        # variables for which a user configuration defines exact unit entries next to the stock patterns
        return ([("density", "d")] + [(f"velocity_{c}", "d") for c in comps]
                + [("velocity_divergence", "d"), ("position_tag", "d"), ("radiative_energy_fraction", "d"), ("radiative_energy_1", "d"), ("pressure", "d")])
    if kind == "odd":
        # ... and names that merely begin with, end with or contain a name the units library knows (a plain entry is an exact name, not
        # a prefix), and names one of which is a prefix of another
        return [("density", "d"), ("scalar_00", "d"), ("metallicity", "d"), ("thermal_pressure", "d"), ("internal_energy", "d"),
                ("xHII", "d"), ("ye", "d"), ("zmetal", "d"), ("mass_fraction_CO", "d"), ("pressure_cr", "d"), ("temperature_dust", "d"),
                ("energy_cr", "d"), ("time_since_sf", "d"), ("dx_min", "d"), ("density_dust", "d"), ("scalar_1", "d"), ("scalar_10", "d"),
                ("sub_pressure", "d"), ("radiative_energy_1", "d"), ("radiative_energy_10", "d")]
    raise KeyError(kind)


class Output:
    def __init__(self, tree, ncpu=1, owner=None, ghosts=None, boxlen=1.0, unit_d=1.0, unit_l=1.0,
                 unit_t=1.0, hydro="rvp", grav=False, rt=None, nxyz=None, boundary_octs=None,
                 noutput=1, key_width=8, bound_key=None, ordering="hilbert", time=0.5, info_format="repr",
                 part=None, sink=None, nout=1, ghost_son="present"):
        self.tree = tree
        self.ndim = tree.ndim
        self.ncpu = ncpu
        octs = tree.all_octs()
        # owner: oct (level, parent coords) -> cpu index 0-based
        self.owner = dict(owner) if owner is not None else {o: 0 for o in octs}
        for o in octs:
            self.owner.setdefault(o, 0)
        # ghosts: cpu -> set of octs (not owned by it) also present in its file
        self.ghosts = {k: set(v) for k, v in (ghosts or {}).items()}
        self.boxlen, self.unit_d, self.unit_l, self.unit_t = boxlen, unit_d, unit_l, unit_t
        self.hydro = hydro_vars_for(self.ndim, hydro) if isinstance(hydro, str) else hydro
        self.grav = grav
        self.rt = rt  # list of (name,type) or None
        self.nxyz = tuple(nxyz) if nxyz else (1, 1, 1)
        # boundary_octs: list (one per boundary region) of dict level -> count of octs
        self.boundary_octs = boundary_octs or []
        self.noutput = noutput
        self.key_width = key_width
        self.info_format = info_format  # "fortran": reals as RAMSES prints them (E23.15: 15 significant digits)
        self.bound_key = bound_key
        self.ordering = ordering
        self.time = time
        self.part = part  # dict(desc=[(name,type)], data={cpu: {name: array}}, localseed=4, nstar_bytes=4)
        self.sink = sink  # dict(keys=[...], units=[...], rows=[[...]], legacy=False) | "empty" | None
        self.nout = nout
        self.ghost_son = ghost_son
        # value tags
        self.seq = {}
        for i, (lev, c, p) in enumerate(tree.cells()):
            self.seq[(lev, c)] = i

    # ---- values
    def value(self, group, j, lev, c):
        base = {"hydro": 0, "grav": 50, "rt": 80}[group]
        return 1.0 + self.seq[(lev, c)] + 1024.0 * (base + j + 1)

    @staticmethod
    def poison(v):
        return -v - 0.5

    def grav_vars(self):
        return [("grav_potential", "d")] + [(f"grav_acceleration_{c}", "d") for c in "xyz"[: self.ndim]]

    # ---- files
    def xbound(self):
        return tuple(float(int(n / 2)) for n in self.nxyz)

    def file_domains(self, k):
        """For file of cpu k: dict (level, domain) -> list of ('own'|'ghost'|'bnd', oct) in write order."""
        L = self.tree.levelmax
        out = {}
        for lev in range(1, L + 1):
            for d in range(self.ncpu):
                lst = []
                for p in self.tree.octs(lev):
                    o = (lev, p)
                    if self.owner[o] != d:
                        continue
                    if d == k:
                        lst.append(("own", o))
                    elif o in self.ghosts.get(k, ()):
                        lst.append(("ghost", o))
                out[(lev, d)] = lst
            for ib, reg in enumerate(self.boundary_octs):
                n = reg.get(lev, 0)
                out[(lev, self.ncpu + ib)] = [("bnd", (lev, ib, i)) for i in range(n)]
        return out

    def present_in_file(self, k):
        s = set()
        for o, d in self.owner.items():
            if d == k or o in self.ghosts.get(k, ()):
                s.add(o)
        return s

    def write(self, path):
        nout = self.nout
        d = os.path.join(path, "output_%05d" % nout)
        os.makedirs(d, exist_ok=True)
        self._write_info(os.path.join(d, "info_%05d.txt" % nout))
        self._write_descriptor(os.path.join(d, "hydro_file_descriptor.txt"), self.hydro)
        if self.rt:
            self._write_descriptor(os.path.join(d, "rt_file_descriptor.txt"), self.rt)
        if self.part:
            self._write_descriptor(os.path.join(d, "part_file_descriptor.txt"), self.part["desc"])
        for k in range(self.ncpu):
            doms = self.file_domains(k)
            suffix = "_%05d.out%05d" % (nout, k + 1)
            with open(os.path.join(d, "amr" + suffix), "wb") as f:
                f.write(self._amr_bytes(k, doms))
            with open(os.path.join(d, "hydro" + suffix), "wb") as f:
                f.write(self._var_bytes(k, doms, "hydro", self.hydro, header="hydro"))
            if self.grav:
                with open(os.path.join(d, "grav" + suffix), "wb") as f:
                    f.write(self._var_bytes(k, doms, "grav", self.grav_vars(), header="grav"))
            if self.rt:
                with open(os.path.join(d, "rt" + suffix), "wb") as f:
                    f.write(self._var_bytes(k, doms, "rt", self.rt, header="rt"))
            if self.part:
                with open(os.path.join(d, "part" + suffix), "wb") as f:
                    f.write(self._part_bytes(k))
        if self.sink is not None:
            with open(os.path.join(d, "sink_%05d.csv" % nout), "w") as f:
                f.write(self._sink_text())
        return d

    # ---- records
    @staticmethod
    def rec(payload):
        n = struct.pack("i", len(payload))
        return n + payload + n

    @classmethod
    def rec_i(cls, *vals):
        return cls.rec(np.asarray(vals, dtype=np.int32).tobytes())

    @classmethod
    def rec_d(cls, *vals):
        return cls.rec(np.asarray(vals, dtype=np.float64).tobytes())

    def default_bound_key(self):
        if self.bound_key is not None:
            return list(self.bound_key)
        top = (2 ** (self.tree.levelmax + 1)) ** self.ndim
        return [top * i // self.ncpu for i in range(self.ncpu)] + [top]

    def _write_info(self, fname):
        t = self.tree
        bk = self.default_bound_key()
        lines = [
            "ncpu        = %10d" % self.ncpu,
            "ndim        = %10d" % self.ndim,
            "levelmin    = %10d" % t.levelmin,
            "levelmax    = %10d" % t.levelmax,
            "ngridmax    = %10d" % 100000,
            "nstep_coarse= %10d" % 3,
            "",
            "boxlen      =  %r" % float(self.boxlen),
            "time        =  %r" % float(self.time),
            "aexp        =  %r" % 1.0,
            "H0          =  %r" % 1.0,
            "omega_m     =  %r" % 1.0,
            "omega_l     =  %r" % 0.0,
            "omega_k     =  %r" % 0.0,
            "omega_b     =  %r" % 0.0,
            "unit_l      =  %r" % float(self.unit_l),
            "unit_d      =  %r" % float(self.unit_d),
            "unit_t      =  %r" % float(self.unit_t),
            "",
            "ordering type=%s" % self.ordering,
        ]
        if self.ordering == "hilbert":
            lines.append("   DOMAIN   ind_min                 ind_max")
            for i in range(self.ncpu):
                if getattr(self, "info_format", "repr") == "fortran":
                    lines.append("%8d%23s%23s" % (i + 1, fortran_e(float(bk[i])), fortran_e(float(bk[i + 1]))))
                else:
                    lines.append("%8d   %r   %r" % (i + 1, float(bk[i]), float(bk[i + 1])))
        with open(fname, "w") as f:
            f.write("\n".join(lines) + "\n")

    @staticmethod
    def _write_descriptor(fname, desc):
        with open(fname, "w") as f:
            f.write("# version:  1\n# ivar, variable_name, variable_type\n")
            for i, (name, typ) in enumerate(desc):
                f.write("%3d, %s, %s\n" % (i + 1, name, typ))

    def _amr_bytes(self, k, doms):
        t = self.tree
        L, ncpu, ndim = t.levelmax, self.ncpu, self.ndim
        nb = len(self.boundary_octs)
        nx, ny, nz = self.nxyz
        ncoarse = nx * ny * nz
        twotondim = 2**ndim
        b = []
        b.append(self.rec_i(ncpu))
        b.append(self.rec_i(ndim))
        b.append(self.rec_i(nx, ny, nz))
        b.append(self.rec_i(L))
        b.append(self.rec_i(100000))  # ngridmax
        b.append(self.rec_i(nb))
        ngrid_current = sum(len(v) for v in doms.values())
        b.append(self.rec_i(ngrid_current))
        b.append(self.rec_d(self.boxlen))
        b.append(self.rec_i(self.noutput, 7, 9))
        b.append(self.rec_d(*[0.1 * (i + 1) for i in range(self.noutput)]))  # tout
        b.append(self.rec_d(*[1.0 + i for i in range(self.noutput)]))  # aout
        b.append(self.rec_d(self.time))
        b.append(self.rec_d(*[0.01 * (i + 1) for i in range(L)]))  # dtold
        b.append(self.rec_d(*[0.02 * (i + 1) for i in range(L)]))  # dtnew
        b.append(self.rec_i(11, 3))  # nstep, nstep_coarse
        b.append(self.rec_d(1.5, 2.5, 3.5))
        b.append(self.rec_d(*[0.25 * i for i in range(7)]))
        b.append(self.rec_d(*[0.75 * i for i in range(5)]))
        b.append(self.rec_d(1e-3))  # mass_sph
        numbl = np.zeros((ncpu, L), dtype=np.int32)
        for (lev, dom), lst in doms.items():
            if dom < ncpu:
                numbl[dom, lev - 1] = len(lst)
        junk = (np.arange(ncpu * L, dtype=np.int32) * 7 + 13) % 1000
        b.append(self.rec(junk.tobytes()))  # headl
        b.append(self.rec((junk + 1).tobytes()))  # taill
        b.append(self.rec(numbl.T.copy().tobytes()))  # numbl(1:ncpu,1:L) column-major
        b.append(self.rec(((np.arange(10 * L, dtype=np.int32) * 3 + 5) % 997).tobytes()))  # numbtot
        if nb > 0:
            numbb = np.zeros((nb, L), dtype=np.int32)
            for (lev, dom), lst in doms.items():
                if dom >= ncpu:
                    numbb[dom - ncpu, lev - 1] = len(lst)
            jb = (np.arange(nb * L, dtype=np.int32) * 5 + 3) % 1000
            b.append(self.rec(jb.tobytes()))  # headb
            b.append(self.rec((jb + 2).tobytes()))  # tailb
            b.append(self.rec(numbb.T.copy().tobytes()))  # numbb
        b.append(self.rec_i(5, 6, 7, 8, 9))  # headf,tailf,numbf,used_mem,used_mem_tot
        ordering = self.ordering.ljust(128)[:128].encode()
        b.append(self.rec(ordering))
        bk = self.default_bound_key()
        if self.key_width == 8:
            b.append(self.rec(np.asarray(bk, dtype=np.float64).tobytes()))
        else:
            b.append(self.rec(b"".join(struct.pack("dd", float(x), 0.0) for x in bk)))
        b.append(self.rec(np.arange(1, ncoarse + 1, dtype=np.int32).tobytes()))  # son
        b.append(self.rec(np.zeros(ncoarse, dtype=np.int32).tobytes()))  # flag1
        b.append(self.rec(np.ones(ncoarse, dtype=np.int32).tobytes()))  # cpu_map
        xb = self.xbound()
        present = self.present_in_file(k)
        for lev in range(1, L + 1):
            for dom in range(ncpu + nb):
                lst = doms[(lev, dom)]
                n = len(lst)
                if n == 0:
                    continue
                idx = np.arange(n, dtype=np.int32)
                b.append(self.rec((idx + 100 * lev + 1).tobytes()))  # ind_grid
                b.append(self.rec((idx + 2).tobytes()))  # next
                b.append(self.rec((idx * 3 + 1).tobytes()))  # prev
                xg = np.zeros((n, 3))
                son = np.zeros((n, twotondim), dtype=np.int32)
                for i, (kind, o) in enumerate(lst):
                    if kind == "bnd":
                        # boundary octs lie outside the active coarse cell
                        _, ib, j = o
                        xg[i, :ndim] = -0.25 - 0.125 * j - ib
                        continue
                    _, p = o
                    size = 0.5 ** (lev - 1)
                    for a in range(ndim):
                        xg[i, a] = (p[a] + 0.5) * size + xb[a]
                    for ind, c in enumerate(t.children(lev, p)):
                        if t.is_refined(lev, c):
                            if kind == "own" or self.ghost_son == "truth" or (lev + 1, c) in present:
                                son[i, ind] = 1 + self.seq[(lev, c)]
                for a in range(ndim):
                    b.append(self.rec(xg[:, a].copy().tobytes()))
                b.append(self.rec((idx + 11).tobytes()))  # father
                for a in range(2 * ndim):
                    b.append(self.rec((idx + 20 + a).tobytes()))  # nbor
                for ind in range(twotondim):
                    b.append(self.rec(son[:, ind].copy().tobytes()))
                for ind in range(twotondim):
                    b.append(self.rec(np.full(n, dom + 1, dtype=np.int32).tobytes()))  # cpu_map
                for ind in range(twotondim):
                    b.append(self.rec(np.zeros(n, dtype=np.int32).tobytes()))  # flag1
        return b"".join(b)

    def _var_bytes(self, k, doms, group, variables, header):
        t = self.tree
        L, ncpu, ndim = t.levelmax, self.ncpu, self.ndim
        nb = len(self.boundary_octs)
        twotondim = 2**ndim
        nvar = len(variables)
        b = []
        if header == "hydro":
            b += [self.rec_i(ncpu), self.rec_i(nvar), self.rec_i(ndim), self.rec_i(L), self.rec_i(nb), self.rec_d(1.4)]
        elif header == "grav":
            b += [self.rec_i(ncpu), self.rec_i(ndim + 1), self.rec_i(L), self.rec_i(nb)]
        elif header == "rt":
            b += [self.rec_i(ncpu), self.rec_i(nvar), self.rec_i(ndim), self.rec_i(L), self.rec_i(nb), self.rec_d(1.4)]
        for lev in range(1, L + 1):
            for dom in range(ncpu + nb):
                lst = doms[(lev, dom)]
                n = len(lst)
                b.append(self.rec_i(lev))
                b.append(self.rec_i(n))
                if n == 0:
                    continue
                for ind in range(twotondim):
                    for j in range(nvar):
                        vals = np.zeros(n)
                        for i, (kind, o) in enumerate(lst):
                            if kind == "bnd":
                                vals[i] = -9.0e5 - i - 10 * j
                                continue
                            _, p = o
                            c = t.children(lev, p)[ind]
                            v = self.value(group, j, lev, c)
                            vals[i] = v if kind == "own" else self.poison(v)
                        b.append(self.rec(vals.tobytes()))
        return b"".join(b)

    def _part_bytes(self, k):
        P = self.part
        data = P["data"].get(k, {})
        desc = P["desc"]
        npart = len(next(iter(data.values()))) if data else 0
        b = [self.rec_i(self.ncpu), self.rec_i(self.ndim), self.rec_i(npart)]
        ls = P.get("localseed", 4)
        b.append(self.rec_i(*range(1, ls + 1)))
        if P.get("nstar_bytes", 4) == 4:
            b.append(self.rec_i(0))
        else:
            b.append(self.rec(struct.pack("q", 0)))
        b.append(self.rec_d(0.0))
        b.append(self.rec_d(0.0))
        b.append(self.rec_i(P.get("nsink", 0)))
        dt = {"d": np.float64, "i": np.int32, "b": np.int8}
        for name, typ in desc:
            arr = np.asarray(data.get(name, []), dtype=dt[typ])
            b.append(self.rec(arr.tobytes()))
        return b"".join(b)

    def _sink_text(self):
        S = self.sink
        if S == "empty":
            return ""
        lines = [" # " + ",".join(S["keys"]), " # " + ",".join(S["units"])]
        for row in S["rows"]:
            lines.append(",".join(repr(float(x)) for x in row))
        return "\n".join(lines) + "\n"

    # ---- expectations
    def expected_mesh(self, lmax=None):
        """Rows the loader must return for a full load (code units; caller applies unit factors)."""
        t = self.tree
        rows = []
        for lev, c, p in t.leaves(lmax):
            o = (lev, p)
            row = {
                "level": lev,
                "cpu": self.owner[o] + 1,
                "dx": 0.5**lev * self.boxlen,
                "pos": tuple((x + 0.5) * 0.5**lev * self.boxlen for x in c),
                "cell": (lev, c),
            }
            for j, (name, _) in enumerate(self.hydro):
                row[name] = self.value("hydro", j, lev, c)
            if self.grav:
                for j, (name, _) in enumerate(self.grav_vars()):
                    row[name] = self.value("grav", j, lev, c)
            if self.rt:
                for j, (name, _) in enumerate(self.rt):
                    row[name] = self.value("rt", j, lev, c)
            rows.append(row)
        return rows

    def describe(self):
        return {
            "tree": self.tree.describe(),
            "ncpu": self.ncpu,
            "owner": [[o[0], list(o[1]), k] for o, k in sorted(self.owner.items())],
            "ghosts": {str(k): [[o[0], list(o[1])] for o in sorted(v)] for k, v in self.ghosts.items()},
            "units": [self.unit_d, self.unit_l, self.unit_t, self.boxlen],
            "hydro": [n for n, _ in self.hydro],
            "grav": self.grav,
            "rt": [n for n, _ in self.rt] if self.rt else None,
            "nxyz": list(self.nxyz),
            "boundary_octs": self.boundary_octs,
            "noutput": self.noutput,
            "key_width": self.key_width,
            "ordering": self.ordering,
            "ghost_son": self.ghost_son,
        }


# --------------------------------------------------------- Hilbert-consistent ownership


def cell_key(ndim, levelmax, level, coords):
    """RAMSES cmp_cpumap: Hilbert key (resolution 2^(levelmax+1) per axis) of the centre of cell
    (level, coords); the curve is hilbert1d / hilbert2d / hilbert3d according to ndim."""
    from .hilbert import hilbert1d, hilbert2d, hilbert3d

    bits = levelmax + 1
    size = 2 ** (bits - level)
    ijk = [int((x + 0.5) * size) for x in coords]
    if ndim == 1:
        return hilbert1d(ijk[0], bits)
    if ndim == 2:
        return hilbert2d(ijk[0], ijk[1], bits)
    return hilbert3d(ijk[0], ijk[1], ijk[2], bits)


def owner_of_key(key, bound_key):
    for i in range(len(bound_key) - 1):
        if bound_key[i] <= key < bound_key[i + 1]:
            return i
    return len(bound_key) - 2


def hilbert_owner(tree, bound_key):
    """RAMSES ownership: an oct belongs to the cpu whose [bound_key[i], bound_key[i+1]) contains
    the Hilbert key of its father cell's centre."""
    owner = {}
    for (lev, p) in tree.all_octs():
        owner[(lev, p)] = owner_of_key(cell_key(tree.ndim, tree.levelmax, lev - 1, p), bound_key)
    return owner


# --------------------------------------------------------------- particle / sink builders

STD_PART = [("mass", "d"), ("identity", "i"), ("levelp", "i"), ("family", "b"), ("tag", "b")]


def part_descriptor(ndim, extra=STD_PART, with_pos=True, with_vel=True, reverse=False):
    d = []
    comps = "xyz"[:ndim][::-1] if reverse else "xyz"[:ndim]
    if with_pos:
        d += [(f"position_{c}", "d") for c in comps]
    if with_vel:
        d += [(f"velocity_{c}", "d") for c in comps]
    return d + list(extra)


def part_value(j, typ, cpu, i):
    """distinct, exactly representable tag for column j, particle i of cpu (0-based)"""
    if typ == "d":
        return 0.25 + i + 16.0 * cpu + 256.0 * (j + 1)
    if typ == "i":
        return 1 + i + 100 * cpu + 10000 * (j + 1)
    return (i * 7 + cpu * 3 + j) % 100 - 50  # byte


def make_part(desc, counts, localseed=4, nstar_bytes=4):
    """counts: list of particle counts per cpu"""
    data = {}
    for k, n in enumerate(counts):
        data[k] = {name: [part_value(j, typ, k, i) for i in range(n)] for j, (name, typ) in enumerate(desc)}
    return {"desc": list(desc), "data": data, "localseed": localseed, "nstar_bytes": nstar_bytes, "counts": list(counts)}


def make_sink(ndim, nrows, legacy=False, extra_cols=(), order="xyz", extra_units=None):
    comps = "xyz"[:ndim]
    if order == "rev":
        comps = comps[::-1]
    elif order == "rot":
        comps = comps[1:] + comps[:1]
    vcomps = comps[::-1] if order == "rot" else comps
    keys = ["id", "msink"] + list(comps) + ["v" + c for c in vcomps] + ["level"] + list(extra_cols)
    if legacy:
        units = ["[1]", "[g]"] + ["[cm]"] * ndim + ["[cm/s]"] * ndim + ["[1]"] + ["[s]"] * len(extra_cols)
    else:
        units = ["1", "m"] + ["l"] * ndim + ["l t**-1"] * ndim + ["1"] + (list(extra_units) if extra_units else ["m l**2 t**-1"] * len(extra_cols))
    rows = [[(r + 1) + 0.5 * j for j in range(len(keys))] for r in range(nrows)]
    for r in range(nrows):
        rows[r][0] = float(r + 1)
    return {"keys": keys, "units": units, "rows": rows, "legacy": legacy}

"""Frozen copy of the RAMSES 3-D Hilbert state diagram (12 states x 2 x 8), Fortran order (8, 2, 12).

Taken once from the pinned osyris tree (which copied it from RAMSES hilbert3d); validated structurally by
mc.models.hilbert.validate_curve (bijection, unit-step adjacency, prefix nesting). The M1 writer decides oct
ownership with this table, never with the code under test.
"""

STATE_DIAGRAM_FLAT = [
    1, 2, 3, 2, 4, 5, 3, 5, 0, 1, 3, 2, 7, 6, 4, 5,
    2, 6, 0, 7, 8, 8, 0, 7, 0, 7, 1, 6, 3, 4, 2, 5,
    0, 9, 10, 9, 1, 1, 11, 11, 0, 3, 7, 4, 1, 2, 6, 5,
    6, 0, 6, 11, 9, 0, 9, 8, 2, 3, 1, 0, 5, 4, 6, 7,
    11, 11, 0, 7, 5, 9, 0, 7, 4, 3, 5, 2, 7, 0, 6, 1,
    4, 4, 8, 8, 0, 6, 10, 6, 6, 5, 1, 2, 7, 4, 0, 3,
    5, 7, 5, 3, 1, 1, 11, 11, 4, 7, 3, 0, 5, 6, 2, 1,
    6, 1, 6, 10, 9, 4, 9, 10, 6, 7, 5, 4, 1, 0, 2, 3,
    10, 3, 1, 1, 10, 3, 5, 9, 2, 5, 3, 4, 1, 6, 0, 7,
    4, 4, 8, 8, 2, 7, 2, 3, 2, 1, 5, 6, 3, 0, 4, 7,
    7, 2, 11, 2, 7, 5, 8, 5, 4, 5, 7, 6, 3, 2, 0, 1,
    10, 3, 2, 6, 10, 3, 4, 4, 6, 1, 7, 0, 5, 2, 4, 3,
]

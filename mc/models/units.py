"""M2 — independent unit algebra.

A unit is (scale to CGS, integer exponent vector over (cm, g, s, K, G), relative uncertainty).
The table is written down here independently of pint's registry files and of
osyris/config/defaults.py; astrophysical constants carry the tolerance to which their
accepted value is pinned. Only pint's *parser* (unit expression -> {canonical name: exponent})
is used to read a unit label.
"""
import math
import re
from fractions import Fraction

DIMS = ("cm", "g", "s", "K", "A")


def _d(cm=0, g=0, s=0, K=0, A=0):
    return (Fraction(cm), Fraction(g), Fraction(s), Fraction(K), Fraction(A))


# Gaussian-cgs magnetic field: g^1/2 cm^-1/2 s^-1 (no ampere: a different dimension from the SI tesla)
GAUSS = _d(cm=Fraction(-1, 2), g=Fraction(1, 2), s=-1)


EXACT = 0.0
PI = math.pi
AU = 1.495978707e13  # cm, IAU 2012 exact
PC = AU * 648000.0 / PI  # IAU 2015 exact definition

# canonical pint name -> (scale, dims, tol)
TABLE = {
    "dimensionless": (1.0, _d(), EXACT),
    # scaled pure numbers and angles: no dimension, but a scale that conversions and comparisons must honour
    "percent": (0.01, _d(), 1e-15),
    "ppm": (1.0e-6, _d(), 1e-15),
    "radian": (1.0, _d(), EXACT),
    "degree": (PI / 180.0, _d(), 1e-15),
    # length
    "centimeter": (1.0, _d(cm=1), EXACT),
    "millimeter": (0.1, _d(cm=1), 1e-15),
    "meter": (100.0, _d(cm=1), EXACT),
    "kilometer": (1.0e5, _d(cm=1), EXACT),
    "astronomical_unit": (AU, _d(cm=1), 1e-12),
    "parsec": (PC, _d(cm=1), 1e-10),  # pint uses au/tan(1"), IAU 2015 uses 648000/pi au: 8e-12 apart
    "kiloparsec": (PC * 1e3, _d(cm=1), 1e-10),
    "light_year": (9.4607304725808e17, _d(cm=1), 1e-12),
    "solar_radius": (6.957e10, _d(cm=1), 1e-4),  # IAU 2015 nominal
    "earth_radius": (6.3781e8, _d(cm=1), 1e-4),  # IAU 2015 nominal equatorial
    "jupiter_radius": (7.1492e9, _d(cm=1), 1e-4),  # IAU 2015 nominal equatorial
    # mass
    "gram": (1.0, _d(g=1), EXACT),
    "kilogram": (1000.0, _d(g=1), EXACT),
    "solar_mass": (1.98841e33, _d(g=1), 1e-3),  # GM_sun(IAU 2015)/G(CODATA 2018)
    "earth_mass": (5.9722e27, _d(g=1), 1e-3),
    "jupiter_mass": (1.89813e30, _d(g=1), 1e-3),
    # time
    "second": (1.0, _d(s=1), EXACT),
    "minute": (60.0, _d(s=1), EXACT),
    "hour": (3600.0, _d(s=1), EXACT),
    "day": (86400.0, _d(s=1), EXACT),
    "year": (31557600.0, _d(s=1), EXACT),  # Julian year
    "kiloyear": (31557600.0e3, _d(s=1), EXACT),
    "megayear": (31557600.0e6, _d(s=1), EXACT),
    # temperature
    "kelvin": (1.0, _d(K=1), EXACT),
    "millikelvin": (1.0e-3, _d(K=1), 1e-15),
    "electron_volt": (1.602176634e-12, _d(cm=2, g=1, s=-2), 1e-9),  # exact by the 2019 SI
    "kiloelectron_volt": (1.602176634e-9, _d(cm=2, g=1, s=-2), 1e-9),
    # mechanics
    "dyne": (1.0, _d(cm=1, g=1, s=-2), EXACT),
    "newton": (1.0e5, _d(cm=1, g=1, s=-2), EXACT),
    "erg": (1.0, _d(cm=2, g=1, s=-2), EXACT),
    "joule": (1.0e7, _d(cm=2, g=1, s=-2), EXACT),
    "watt": (1.0e7, _d(cm=2, g=1, s=-3), EXACT),
    "pascal": (10.0, _d(cm=-1, g=1, s=-2), EXACT),
    "barye": (1.0, _d(cm=-1, g=1, s=-2), EXACT),
    "hertz": (1.0, _d(s=-1), EXACT),
    # osyris constants
    "solar_luminosity": (3.828e33, _d(cm=2, g=1, s=-3), 1e-4),  # IAU 2015 nominal
    "bolometric_luminosity": (3.0128e35, _d(cm=2, g=1, s=-3), 1e-4),  # IAU 2015 B2 zero point
    "radiation_constant": (7.565733e-15, _d(cm=-1, g=1, s=-2, K=-4), 1e-4),  # 4 sigma / c, CODATA 2018
    # magnetic / electric: Gaussian-cgs units have no ampere and are dimensionally distinct from SI ones
    "gauss": (1.0, GAUSS, EXACT),
    "milligauss": (1.0e-3, GAUSS, 1e-15),
    "statvolt": (1.0, _d(cm=Fraction(1, 2), g=Fraction(1, 2), s=-1), EXACT),
    "franklin": (1.0, _d(cm=Fraction(3, 2), g=Fraction(1, 2), s=-1), EXACT),
    "tesla": (1.0e3, _d(g=1, s=-2, A=-1), EXACT),
    "ampere": (1.0, _d(A=1), EXACT),
    "coulomb": (1.0, _d(s=1, A=1), EXACT),
    "volt": (1.0e7, _d(cm=2, g=1, s=-3, A=-1), EXACT),
    "farad": (1.0e-7, _d(cm=-2, g=-1, s=4, A=2), 1e-15),
    "ohm": (1.0e7, _d(cm=2, g=1, s=-3, A=-2), EXACT),
    "weber": (1.0e7, _d(cm=2, g=1, s=-2, A=-1), EXACT),
    "henry": (1.0e7, _d(cm=2, g=1, s=-2, A=-2), EXACT),
    # a few units whose symbols collide with products of others when spaces are dropped
    "millisecond": (1.0e-3, _d(s=1), 1e-15),
    "inch": (2.54, _d(cm=1), EXACT),
}

# independent check values for the catalogue (C08): symbol -> (canonical, aliases)
OSYRIS_CATALOGUE = {
    "solar_mass": ["M_sun", "M_sol"],
    "earth_mass": ["M_earth"],
    "jupiter_mass": ["M_jup"],
    "solar_radius": ["R_sun", "R_sol"],
    "earth_radius": ["R_earth"],
    "jupiter_radius": ["R_jup"],
    "solar_luminosity": ["L_sun", "L_sol"],
    "bolometric_luminosity": ["L_bol0"],
    "radiation_constant": ["ar"],
}


class UnknownUnit(Exception):
    pass


# spelling -> canonical name, for the unit strings the checks write themselves: what a string means is decided here, not by
# asking the library's parser (whose answer is then compared with this one)
SYMBOLS = {
    "": "dimensionless", "1": "dimensionless", "dimensionless": "dimensionless",
    "percent": "percent", "ppm": "ppm", "rad": "radian", "radian": "radian", "deg": "degree", "degree": "degree",
    "cm": "centimeter", "mm": "millimeter", "m": "meter", "km": "kilometer", "au": "astronomical_unit", "pc": "parsec",
    "kpc": "kiloparsec", "ly": "light_year", "R_sun": "solar_radius", "R_sol": "solar_radius", "R_earth": "earth_radius",
    "R_jup": "jupiter_radius", "in": "inch",
    "g": "gram", "kg": "kilogram", "M_sun": "solar_mass", "M_sol": "solar_mass", "M_earth": "earth_mass", "M_jup": "jupiter_mass",
    "s": "second", "ms": "millisecond", "min": "minute", "hr": "hour", "day": "day", "yr": "year", "kyr": "kiloyear", "Myr": "megayear",
    "K": "kelvin", "mK": "millikelvin", "eV": "electron_volt", "keV": "kiloelectron_volt",
    "dyn": "dyne", "N": "newton", "erg": "erg", "J": "joule", "W": "watt", "Pa": "pascal", "Ba": "barye", "Hz": "hertz",
    "L_sun": "solar_luminosity", "L_sol": "solar_luminosity", "L_bol0": "bolometric_luminosity", "ar": "radiation_constant",
    "G": "gauss", "mG": "milligauss", "statV": "statvolt", "Fr": "franklin", "T": "tesla", "A": "ampere", "C": "coulomb", "V": "volt",
    "F": "farad", "ohm": "ohm", "Wb": "weber", "H": "henry",
}
SYMBOLS.update({name: name for name in TABLE})

_TOKEN = re.compile(r"\s*(\*\*|\*|/|\(|\)|-?\d+(?:\.\d+)?|[A-Za-z_][A-Za-z_0-9]*)")


def use_user_constants():
    """The reading of unit names inside the "user-constants" environment (see runner._user_constants_config): M_sun and R_sun are the
    user's own definitions there."""
    TABLE["M_sun"] = (2.0e33, _d(g=1), 1e-14)
    TABLE["R_sun"] = (7.0e10, _d(cm=1), 1e-14)
    SYMBOLS["M_sun"] = "M_sun"
    SYMBOLS["R_sun"] = "R_sun"


def parse(expr):
    """A unit string of the grammar  term (('*' | '/' | ' ') term)*,  term = name ['**' number] | '1'  ->  {canonical name: exponent},
    or None when the string uses anything else (the caller then has no independent reading of it). Products and quotients associate
    to the left, as in Python; white space between two terms is a product."""
    toks, pos = [], 0
    expr = expr.strip()
    while pos < len(expr):
        m = _TOKEN.match(expr, pos)
        if not m:
            return None
        toks.append(m.group(1))
        pos = m.end()
    out = {}
    i, sign = 0, 1
    expect_term = True
    if not toks:
        return {}
    while i < len(toks):
        t = toks[i]
        if expect_term:
            if t in ("*", "/", "**", "(", ")"):
                return None
            if re.fullmatch(r"-?\d+(?:\.\d+)?", t):
                if float(t) != 1.0:
                    return None
                name = None
            else:
                if t not in SYMBOLS:
                    return None
                name = SYMBOLS[t]
            exp = Fraction(1)
            if i + 1 < len(toks) and toks[i + 1] == "**":
                if i + 2 >= len(toks) or not re.fullmatch(r"-?\d+(?:\.\d+)?", toks[i + 2]):
                    return None
                exp = Fraction(toks[i + 2])
                i += 2
            if name is not None and name != "dimensionless":
                out[name] = out.get(name, Fraction(0)) + sign * exp
            expect_term = False
            i += 1
        else:
            if t == "*":
                sign = 1
                i += 1
            elif t == "/":
                sign = -1
                i += 1
            elif t in ("**", "(", ")"):
                return None
            else:
                sign = 1  # white space: a product
            expect_term = True
    if expect_term:
        return None
    return {k: v for k, v in out.items() if v != 0}


def info_of_string(expr):
    """(scale, dims, tol) of a unit string read by parse(), or None."""
    cont = parse(expr)
    if cont is None:
        return None
    return unit_info(cont)


def unit_info(unit):
    """pint Unit (or UnitsContainer-like with .items()) -> (scale, dims, tol)."""
    cont = getattr(unit, "_units", unit)
    scale, dims, tol = 1.0, [0] * len(DIMS), 0.0
    for name, exp in cont.items():
        if name not in TABLE:
            raise UnknownUnit(name)
        s, d, t = TABLE[name]
        try:
            exp = float(exp)  # pint keeps whatever number type it was given (numpy scalars included)
        except (TypeError, ValueError):
            raise UnknownUnit(f"{name} ** {exp!r}")
        scale *= s**exp
        e = Fraction(exp).limit_denominator(12)
        for i in range(len(DIMS)):
            dims[i] += d[i] * e
        tol += abs(float(exp)) * t
    return scale, tuple(Fraction(x) for x in dims), tol


def combine(a, b, op):
    """(scale, dims, tol) algebra for products / quotients / powers."""
    if op == "mul":
        return a[0] * b[0], tuple(x + y for x, y in zip(a[1], b[1])), a[2] + b[2]
    if op == "div":
        return a[0] / b[0], tuple(x - y for x, y in zip(a[1], b[1])), a[2] + b[2]
    raise KeyError(op)


def power(a, k):
    k = Fraction(k).limit_denominator(12)
    return a[0] ** float(k), tuple(x * k for x in a[1]), abs(float(k)) * a[2]


def dims_of(**kw):
    return _d(**kw)


def ramses_expected_units(unit_d, unit_l, unit_t):
    """name pattern -> (factor to CGS, dims) as RAMSES defines its code units."""
    ul, ud, ut = float(unit_l), float(unit_d), float(unit_t)
    v = ul / ut
    return {
        "density": (ud, dims_of(g=1, cm=-3)),
        "velocity": (v, dims_of(cm=1, s=-1)),
        "momentum": (ud * v, dims_of(g=1, cm=-2, s=-1)),
        "energy": (ud * v * v, dims_of(g=1, cm=-1, s=-2)),
        "B": (math.sqrt(4.0 * PI * ud * v * v), GAUSS),
        "length": (ul, dims_of(cm=1)),
        "time": (ut, dims_of(s=1)),
        "mass": (ud * ul**3, dims_of(g=1)),
        "temperature": (1.0, dims_of(K=1)),
        "grav_potential": (v * v, dims_of(cm=2, s=-2)),
        "acceleration": (ul / ut**2, dims_of(cm=1, s=-2)),
        "none": (1.0, dims_of()),
        "inv_time": (1.0 / ut, dims_of(s=-1)),
    }


# exact names a user configuration defines (set by a worker running in the "user-units" environment): they win over patterns
USER_KINDS = {}
USER_UNITS_ENVIRONMENT = {"velocity_divergence": "inv_time", "position_tag": "none", "radiative_energy_fraction": "none"}


def ramses_kind(name):
    """Which RAMSES code unit a stored variable is expressed in (by its conventional name)."""
    if name in USER_KINDS:
        return USER_KINDS[name]
    if name == "density":
        return "density"
    if name.startswith("velocity"):
        return "velocity"
    if name.startswith("momentum"):
        return "momentum"
    if name.startswith("B_"):
        return "B"
    if name in ("pressure", "thermal_pressure", "internal_energy", "energy") or name.startswith("radiative_energy"):
        return "energy"
    if name == "temperature":
        return "temperature"
    if name == "grav_potential":
        return "grav_potential"
    if name.startswith("grav_acceleration"):
        return "acceleration"
    if name in ("dx", "x", "y", "z") or name.startswith("position"):
        return "length"
    if name == "mass":
        return "mass"
    if name == "time":
        return "time"
    return "none"

"""Independent (frozen-table) 3-D Hilbert key used by the M1 writer, plus structural validation."""
from functools import lru_cache

from .hilbert_table import STATE_DIAGRAM_FLAT

# Fortran order reshape (8, 2, 12): element [s, j, c] = flat[s + 8*j + 16*c]


def _sd(sdigit, j, cstate):
    return STATE_DIAGRAM_FLAT[sdigit + 8 * j + 16 * cstate]


def hilbert3d(x, y, z, bit_length):
    """Key of integer cell (x,y,z) on a 2^bit_length grid (RAMSES convention)."""
    cstate = 0
    order = 0
    for i in range(bit_length - 1, -1, -1):
        b2 = (x >> i) & 1
        b1 = (y >> i) & 1
        b0 = (z >> i) & 1
        sdigit = b2 * 4 + b1 * 2 + b0
        nstate = _sd(sdigit, 0, cstate)
        hdigit = _sd(sdigit, 1, cstate)
        order = (order << 3) | hdigit
        cstate = nstate
    return order


def validate_curve(bit_length, key=hilbert3d):
    """Bijection, face-adjacency of consecutive keys, prefix nesting. Returns list of problems."""
    n = 2**bit_length
    problems = []
    inv = {}
    for x in range(n):
        for y in range(n):
            for z in range(n):
                k = key(x, y, z, bit_length)
                if k in inv:
                    problems.append(("not-injective", (x, y, z), inv[k]))
                inv[k] = (x, y, z)
                if bit_length > 1 and k // 8 != key(x // 2, y // 2, z // 2, bit_length - 1):
                    problems.append(("prefix", (x, y, z)))
    if sorted(inv) != list(range(n**3)):
        problems.append(("not-onto", len(inv)))
    else:
        for k in range(n**3 - 1):
            a, b = inv[k], inv[k + 1]
            if sum(abs(p - q) for p, q in zip(a, b)) != 1:
                problems.append(("not-adjacent", k, a, b))
    return problems


# ----------------------------------------------------------------- 1-D and 2-D curves (RAMSES)

# RAMSES hilbert2d state diagram, Fortran order (4, 2, 4); validated structurally by validate_curve2d
STATE_DIAGRAM_2D_FLAT = [
    1, 0, 2, 0, 0, 1, 3, 2,
    0, 3, 1, 1, 0, 3, 1, 2,
    2, 2, 0, 3, 2, 1, 3, 0,
    3, 1, 3, 2, 2, 3, 1, 0,
]


def hilbert2d(x, y, bit_length):
    cstate = 0
    order = 0
    for i in range(bit_length - 1, -1, -1):
        b1 = (x >> i) & 1
        b0 = (y >> i) & 1
        sdigit = b1 * 2 + b0
        nstate = STATE_DIAGRAM_2D_FLAT[sdigit + 4 * 0 + 8 * cstate]
        hdigit = STATE_DIAGRAM_2D_FLAT[sdigit + 4 * 1 + 8 * cstate]
        order = (order << 2) | hdigit
        cstate = nstate
    return order


def hilbert1d(x, bit_length):
    return x


def validate_curve2d(bit_length):
    n = 2**bit_length
    problems, inv = [], {}
    for x in range(n):
        for y in range(n):
            k = hilbert2d(x, y, bit_length)
            if k in inv:
                problems.append(("not-injective", (x, y)))
            inv[k] = (x, y)
            if bit_length > 1 and k // 4 != hilbert2d(x // 2, y // 2, bit_length - 1):
                problems.append(("prefix", (x, y)))
    if sorted(inv) != list(range(n * n)):
        problems.append(("not-onto",))
    else:
        for k in range(n * n - 1):
            a, b = inv[k], inv[k + 1]
            if abs(a[0] - b[0]) + abs(a[1] - b[1]) != 1:
                problems.append(("not-adjacent", k))
    return problems

"""M3 — brute-force point location: which cell's closed cube contains point p.

cells: centres (n, ndim) and sizes (n,). For a query point returns
  T: indices of cells containing p strictly (further than `margin` from every face)
  S: indices of cells touching p (within `margin` of the closed cube)
Non-overlapping meshes give |T| <= 1.
"""
import numpy as np


def locate(centres, sizes, pts, margin):
    """centres (n,d), sizes (n,), pts (m,d) -> (strict (m,n) bool, touch (m,n) bool)"""
    centres = np.asarray(centres, dtype=np.float64)
    pts = np.asarray(pts, dtype=np.float64)
    half = 0.5 * np.asarray(sizes, dtype=np.float64)
    d = np.abs(pts[:, None, :] - centres[None, :, :])  # (m,n,d)
    strict = np.all(d < (half[None, :, None] - margin), axis=2)
    touch = np.all(d <= (half[None, :, None] + margin), axis=2)
    return strict, touch


def mesh_from_tree(tree, box=1.0, holes=()):
    """leaf cells of an M1 tree -> (centres (n,ndim), sizes (n,), ids list of (level, coords))"""
    c, s, ids = [], [], []
    for lev, coords, parent in tree.leaves():
        if (lev, coords) in holes:
            continue
        size = box * 0.5**lev
        c.append([(x + 0.5) * size for x in coords])
        s.append(size)
        ids.append((lev, coords))
    return np.array(c, dtype=np.float64).reshape(len(c), tree.ndim), np.array(s, dtype=np.float64), ids

"""Shared machinery for the map properties (C03, C11): build a mesh from an M1 tree, call osyris.map,
and predict every pixel with the M3 point-location oracle."""
import contextlib
import io
import sys
import itertools

import numpy as np

from ..models import pointloc as M3
from ..models import ramses as M1
from ..models import units as M2

MARGIN = 1e-9  # in units of the box


def tree_from(desc):
    return M1.Tree(desc["ndim"], desc["levelmax"], [(l, tuple(c)) for l, c in desc["refined"]], desc.get("levelmin", 1))


def build_mesh(c):
    """-> (Datagroup, centres (n,ndim) in pos unit, sizes (n,), values dict)"""
    import osyris

    tree = tree_from(c["tree"])
    box = c.get("box", 1.0)
    holes = {(h[0], tuple(h[1])) for h in c.get("holes", [])}
    centres, sizes, ids = M3.mesh_from_tree(tree, box=box, holes=holes)
    n = len(sizes)
    unit = c.get("pos_unit", "cm")
    dens = 1.0 + np.arange(n, dtype=np.float64)
    # special values in some cells: a pixel inside such a cell shows that value (inf is a value, not "no cell")
    SPECIAL = {"inf": np.inf, "-inf": -np.inf, "fmax": np.finfo(np.float64).max, "denorm": 5e-324, "negzero": -0.0, "zero": 0.0, "neg": -3.5}
    for k, name in enumerate(c.get("special", [])):
        j = (2 * k + c.get("special_offset", 0)) % n
        dens[j] = SPECIAL[name]
    dens = dens.astype({"f4": np.float32, "i8": np.int64, "i4": np.int32}.get(c.get("dens_dtype"), np.float64))
    # (fractional values: a buffer of another element type would not hold them)
    vel = np.stack([10.25 + np.arange(n), 200.5 - 3.0 * np.arange(n), -50.125 + 7.0 * np.arange(n)], axis=1)[:, : tree.ndim]
    mesh = osyris.Datagroup()
    mesh["position"] = osyris.Vector(*[centres[:, a].copy() for a in range(tree.ndim)], unit=unit)
    mesh["dx"] = osyris.Array(sizes.copy(), unit=unit)
    mesh["density"] = osyris.Array(dens.copy(), unit="g/cm**3")
    mesh["velocity"] = osyris.Vector(*[vel[:, a].copy() for a in range(tree.ndim)], unit="km/s")
    with np.errstate(all="ignore"):
        mass = dens.astype(np.float64) * sizes**tree.ndim
        mesh["mass"] = osyris.Array(mass.copy(), unit="g")
    return mesh, centres, sizes, {"density": dens.astype(np.float64), "velocity": vel, "mass": mass}


def direction_object(spec):
    import osyris

    if isinstance(spec, str):
        return spec
    kind = spec[0]
    if kind == "normal":
        return osyris.Vector(*[float(x) for x in spec[1]])
    if kind == "basis":
        return osyris.VectorBasis(n=osyris.Vector(*[float(x) for x in spec[1]]), u=osyris.Vector(*[float(x) for x in spec[2]]))
    raise KeyError(kind)


def call_map(c, mesh, extra_layers=False, first_layer=None):
    """-> (Plot or exception, basis (n,u,v) as float arrays or None)"""
    import osyris
    from osyris.plot.direction import get_direction

    ndim = c["tree"]["ndim"]
    unit = c.get("pos_unit", "cm")
    box = c.get("box", 1.0)
    kw = {}
    wu = c.get("win_unit", unit)
    f = M2.unit_info(osyris.units(unit))[0] / M2.unit_info(osyris.units(wu))[0]
    if c.get("dx") is not None:
        kw["dx"] = c["dx"] * box * f * osyris.units(wu)
    if c.get("dy") is not None:
        kw["dy"] = c["dy"] * box * f * osyris.units(wu)
    if c.get("dz") is not None:
        kw["dz"] = c["dz"] * box * f * osyris.units(wu)
    origin = None
    if c.get("origin") is not None:
        ou = c.get("origin_unit", unit)  # the same point, possibly written in another unit than the positions
        fo = M2.unit_info(osyris.units(unit))[0] / M2.unit_info(osyris.units(ou))[0]
        origin = osyris.Vector(*[float(x) * box * fo for x in c["origin"]], unit=ou)
        kw["origin"] = origin
    if c.get("resolution") is not None:
        r = c["resolution"]
        kw["resolution"] = dict(r) if isinstance(r, dict) else r
    if c.get("operation") is not None and not c.get("operation_on_layer"):
        kw["operation"] = c["operation"]
    if ndim == 3:
        kw["direction"] = direction_object(c.get("direction", "z"))
    layers = [mesh.layer("density") if first_layer is None else first_layer]
    if c.get("operation_on_layer") and first_layer is None:
        # the reduction chosen on the layer itself, nothing said about it in the call
        layers = [mesh.layer("density", operation=c["operation"])]
    if c.get("vector_layer", False):
        layers.append(mesh.layer("velocity", mode="vec"))
    if c.get("later_float_layer", False):
        # a float layer after layers of another element type (levels and cpu numbers are integers)
        layers.append(mesh.layer("mass"))
    if c.get("second_group", False):
        # a later layer taken from another Datagroup on the same cells, with a different velocity field and masses
        # (e.g. a second fluid): the geometry and the orientation of the map are those of the first layer
        other = osyris.Datagroup()
        n = len(mesh["dx"])
        other["position"] = mesh["position"].copy()
        other["dx"] = mesh["dx"].copy()
        other["density"] = osyris.Array(np.arange(n, dtype=np.float64) * 3.0 + 500.0, unit="g/cm**3")
        other["mass"] = osyris.Array(np.linspace(5.0, 1.0, n), unit="g")
        vv = mesh["velocity"]
        other["velocity"] = osyris.Vector(vv.z.values[::-1].copy(), -vv.x.values.copy(), vv.y.values[::-1].copy() * 2.0, unit="km/s")
        layers.append(other.layer("density"))
    buf = io.StringIO()
    import warnings

    from ..engines import schedules as S

    vt = contextlib.nullcontext()
    if c.get("virtual_threads"):
        # the parallel kernels below the real map() run on virtual threads (see engines/schedules.virtual_threads)
        import types

        mods = [m for n, m in list(sys.modules.items()) if n.startswith("osyris.plot") and isinstance(m, types.ModuleType)]
        vt = S.virtual_threads(mods, c["virtual_threads"])
    try:
        with vt, contextlib.redirect_stdout(buf), np.errstate(all="ignore"), warnings.catch_warnings():
            warnings.simplefilter("ignore")
            p = osyris.map(*layers, plot=False, **kw)
    except S.HarnessError:
        raise
    except Exception as e:
        return e, None
    # the basis the map is specified to use
    if ndim == 3:
        with contextlib.redirect_stdout(buf):
            b = get_direction(direction=direction_object(c.get("direction", "z")), data=layers[0], dx=kw.get("dx"), dy=kw.get("dy", kw.get("dx")), origin=origin)
        basis = [np.array([float(getattr(b, k).x.values), float(getattr(b, k).y.values), float(getattr(b, k).z.values)]) for k in "nuv"]
    else:
        basis = [np.zeros(2), np.array([1.0, 0.0]), np.array([0.0, 1.0])]
    return p, basis


def sample_points(c, p, basis, nz=None):
    """pixel (and depth) sample points in position units: array (nzs, ny, nx, ndim)"""
    import osyris

    ndim = c["tree"]["ndim"]
    unit = c.get("pos_unit", "cm")
    box = c.get("box", 1.0)
    wu = c.get("win_unit", unit) if c.get("dx") is not None else unit
    f = M2.unit_info(osyris.units(wu))[0] / M2.unit_info(osyris.units(unit))[0]
    xs = np.asarray(p.x, dtype=np.float64) * f
    ys = np.asarray(p.y, dtype=np.float64) * f
    o = np.array([float(x) * box for x in c["origin"]]) if c.get("origin") is not None else np.zeros(ndim)
    n, u, v = basis
    if nz is None:
        zs = np.array([0.0])
    else:
        dz = c["dz"] * box
        zs = -0.5 * dz + (np.arange(nz) + 0.5) * dz / nz
    pts = (o[None, None, None, :] + xs[None, None, :, None] * u[None, None, None, :] + ys[None, :, None, None] * v[None, None, None, :]
           + zs[:, None, None, None] * n[None, None, None, :])
    return pts, xs, ys, zs


def locate(centres, sizes, pts, box):
    """-> (idx (…) of the strictly containing cell or -1, ambiguous (…) bool)"""
    shp = pts.shape[:-1]
    flat = pts.reshape(-1, pts.shape[-1])
    strict, touch = M3.locate(centres, sizes, flat, MARGIN * box)
    idx = np.where(strict.any(axis=1), strict.argmax(axis=1), -1)
    amb = (~strict.any(axis=1)) & touch.any(axis=1)
    multi = strict.sum(axis=1) > 1
    return idx.reshape(shp), amb.reshape(shp), touch.reshape(shp + (len(sizes),)), bool(multi.any())

"""C02 — Array arithmetic equals arithmetic on the physical quantities it represents.

E1 + M2: product of operator x operand kinds (Array, int, float, 0-d/n-d ndarray, Quantity; either side)
x dtype pairs x shape pairs (incl. broadcasting) x every ordered pair of units within each family plus
one incompatible pair per pair of families x two value sets. Oracle: convert both operands to CGS with
the independent unit table, apply the operator, compare physical value and dimension vector.
"""
import itertools

import numpy as np

from ..models import units as M2
from fractions import Fraction
from ..runner import Acc, my_share
from . import _arr

LEVEL = "exploration"
MOD = "mc.props.C02"

BIN_OPS = ["add", "sub", "mul", "div"]
UNARY = ["neg", "pow2", "pow3", "pow-1", "pow0.5", "kmul", "kmul_f", "kdiv", "pow0", "pow1"]


def unit_pairs(fams):
    pairs = []
    for fam, us in fams.items():
        for u1 in us:
            for u2 in us:
                pairs.append((u1, u2, True))
    names = list(fams)
    for f1, f2 in itertools.combinations(names, 2):
        pairs.append((fams[f1][0], fams[f2][-1], False))
        pairs.append((fams[f2][0], fams[f1][-1], False))
    return pairs


def dtype_pairs(thorough):
    ds = ["f8", "f4", "i8", "i4"]
    if thorough:
        return [(a, b) for a in ds for b in ds]
    return [(a, a) for a in ds] + [("f4", "f8"), ("i4", "f8"), ("i8", "f8"), ("f8", "i4"), ("f4", "i4")]


def cases(thorough):
    fams = _arr.FAMILIES if thorough else _arr.FAMILIES_QUICK
    up = unit_pairs(fams)
    # block 1: Array op Array
    for op in BIN_OPS:
        for (d1, d2) in dtype_pairs(thorough):
            for (s1, s2) in _arr.SHAPE_PAIRS:
                for (u1, u2, compat) in up:
                    for vset in (0, 1):
                        if not thorough and vset == 1 and (s1, s2) not in (("3", "3"), ("2x1", "1x3")):
                            continue
                        yield {"block": "AA", "op": op, "d1": d1, "d2": d2, "s1": s1, "s2": s2, "u1": u1, "u2": u2, "vset": vset}
    # block 2: Array op other kind / other kind op Array
    allunits = [u for us in fams.values() for u in us]
    one_per_family = [us[-1] for us in fams.values()]
    for op in BIN_OPS:
        for side in ("right", "left"):
            for kind in ("int", "float", "nd0", "nd", "nd1", "Q_same", "Q_other", "Q_incompat", "Q_nd"):
                for d1 in ("f8", "f4", "i8", "i4"):
                    for s1 in ("0d", "3", "2x3"):
                        for u1 in one_per_family:
                            yield {"block": "AX", "op": op, "side": side, "kind": kind, "d1": d1, "s1": s1, "u1": u1}
    # block 4: sequences on two persistent operands: binary operations interleaved with in-place changes of the operands
    # (the result must always be computed from the operands' current values)
    STEPS = ["add", "sub", "mul", "div", "radd", "mut_b_imul", "mut_b_iadd", "mut_b_poke", "mut_a_imul", "mut_b_unit_mul"]
    for (u1, u2) in [("m", "cm"), ("cm", "m"), ("g", "M_sun"), ("km/s", "cm/s")]:
        for d in ("f8", "f4"):
            for seq in itertools.product(STEPS, repeat=3):
                if not any(x.startswith("mut") for x in seq[:2]) or seq[2].startswith("mut"):
                    continue
                if not thorough and d == "f4" and seq[0].startswith("mut"):
                    continue
                yield {"block": "SEQ", "u1": u1, "u2": u2, "d1": d, "steps": list(seq)}
    # ... and in-place updates that numpy itself refuses after the units have been worked out (an operand of another length, a float result
    # for integer data): the refused operand is what it was, and what follows is computed from it
    for (u1, u2) in [("m", "cm"), ("g", "M_sun"), ("km/s", "cm/s")]:
        for d in ("f8", "i8"):
            for r in ("mut_b_refused_shape_imul", "mut_a_refused_shape_idiv", "mut_b_refused_int_idiv", "mut_a_refused_sqrt_out"):
                if r == "mut_b_refused_int_idiv" and d != "i8":
                    continue
                for s2 in ("add", "mul", "div", "radd"):
                    yield {"block": "SEQ", "u1": u1, "u2": u2, "d1": d, "steps": [r, s2, "sub"]}
    # block 3: unary / scalar-multiple / powers
    for op in UNARY:
        for d1 in ("f8", "f4", "i8", "i4"):
            for s1 in ("0d", "1", "3", "2x3"):
                for u1 in allunits:
                    for vset in (0, 1):
                        yield {"block": "U", "op": op, "d1": d1, "s1": s1, "u1": u1, "vset": vset}
    # block P: a ** e for every kind of exponent object: the unit follows the value of the exponent; exponents that differ
    # between elements need a pure-number base; an exponent with a dimension is refused
    for ek in POW_EXP:
        for d1 in ("f8", "f4", "i8"):
            for s1 in ("0d", "3"):
                for u1 in allunits:
                    yield {"block": "P", "ek": ek, "d1": d1, "s1": s1, "u1": u1}
    # the exponent / factor given as a numpy scalar or 0-d array of every common type instead of a Python number
    for op in ("pow2", "pow3", "pow0.5", "pow-1", "kmul", "kmul_f", "kdiv"):
        for kt in ("i8", "i4", "f4", "f8", "nd0", "nd0i"):
            for d1 in ("f8", "f4", "i8"):
                for s1 in ("0d", "3"):
                    for u1 in one_per_family:
                        k = {"kmul": 3, "kdiv": 3, "kmul_f": 2.5}.get(op, None)
                        k = float(op[3:]) if k is None else k
                        if kt in ("i8", "i4", "u1", "nd0i") and k != int(k):
                            continue
                        yield {"block": "U", "op": op, "d1": d1, "s1": s1, "u1": u1, "vset": 0, "ktype": kt}


POW_EXP = ["A0d:2", "A0d:0.5", "A3eq:2", "A3var", "Apercent:200", "Q:2", "Q:3percent", "nd3eq:2", "nd3var", "list:2", "A:s", "Q:K", "A0d:-1"]


def run_power(acc, idx, c):
    import osyris

    A_ = osyris.Array
    dt1 = _arr.DTYPES[c["d1"]]
    v1 = _arr.values_for(_arr.SHAPES[c["s1"]], dt1, 0, 0)
    a = A_(v1, unit=c["u1"])
    P, dP, tP = _arr.phys(a)
    ek = c["ek"]
    n = 3
    # (exponent object, physical exponent values, must be refused)
    if ek.startswith("A0d:"):
        k = float(ek[4:])
        e, E, bad = A_(np.array(k)), np.float64(k), False
    elif ek == "A3eq:2":
        e, E, bad = A_(np.full(n, 2.0)), np.full(n, 2.0), False
    elif ek == "A3var":
        E = np.array([1.0, 2.0, 3.0])
        e, bad = A_(E.copy()), False
    elif ek == "Apercent:200":
        e, E, bad = A_(np.array(200.0), unit="percent"), np.float64(2.0), False
    elif ek == "Q:2":
        e, E, bad = 2.0 * osyris.units("dimensionless"), np.float64(2.0), False
    elif ek == "Q:3percent":
        e, E, bad = 300.0 * osyris.units("percent"), np.float64(3.0), False
    elif ek == "nd3eq:2":
        e, E, bad = np.full(n, 2.0), np.full(n, 2.0), False
    elif ek == "nd3var":
        E = np.array([1.0, 2.0, 3.0])
        e, bad = E.copy(), False
    elif ek == "list:2":
        e, E, bad = [2.0, 2.0, 2.0], np.full(n, 2.0), False
    elif ek == "A:s":
        e, E, bad = A_(np.array(2.0), unit="s"), None, True
    else:
        e, E, bad = 2.0 * osyris.units("K"), None, True
    if E is not None and np.ndim(E) and c["s1"] == "0d":
        pass  # a 0-d base broadcasts against 3 exponents
    sa, se = _arr.snapshot(a), _arr.snapshot(e) if not isinstance(e, list) else None
    varied = E is not None and np.ndim(E) > 0 and len(set(np.ravel(E).tolist())) > 1
    pure = tuple(dP) == tuple(M2.dims_of())
    try:
        with np.errstate(all="ignore"):
            r = a ** e
        raised = None
    except Exception as ex:
        r, raised = None, type(ex).__name__
    if _arr.snapshot(a) != sa or (se is not None and _arr.snapshot(e) != se):
        acc.violation(f"C02:operand-modified:pow:{ek}", idx, c, {})
    if bad or (varied and not pure):
        if raised is None:
            acc.violation("C02:power-with-invalid-exponent-not-refused:" + ("exponent-has-a-dimension" if bad else "varying-exponents-on-dimensional-base"), idx, c,
                          {"result_unit": str(getattr(r, "unit", None))})
            return "accepted-invalid", True
        return "raises", True
    if raised:
        if c["d1"] == "i8" and np.any(np.asarray(E) < 0):
            return "raises", True  # numpy refuses integer ** negative
        # refusing is allowed by the statement; it is not counted as a violation, but reported in the outcome table
        return "refused:" + raised, True
    try:
        got, gd, gt = _arr.phys(r)
    except M2.UnknownUnit as ex:
        acc.violation(f"C02:malformed-unit:pow:{ek.split(':')[0]}", idx, c, {"unit": str(ex)[:120]})
        return "wrong-unit", True
    with np.errstate(all="ignore"):
        want = np.asarray(P, dtype=float) ** E
    if varied:
        wd = tuple(M2.dims_of())
    else:
        kq = Fraction(float(np.ravel(E)[0])).limit_denominator(12)
        wd = tuple(q * kq for q in dP)
    if tuple(gd) != tuple(wd):
        acc.violation(f"C02:wrong-unit:pow:{ek.split(':')[0]}", idx, c, {"unit": str(r.unit), "expected_dims": [str(q) for q in wd]})
        return "wrong-unit", True
    tol = _arr.eps_for(dt1) + (tP + gt) * 3
    if not _arr.close(got, want, tol):
        acc.violation(f"C02:wrong-value:pow:{ek.split(':')[0]}", idx, c, {"got": np.ravel(got)[:4].tolist(), "expected": np.ravel(want)[:4].tolist(), "unit": str(r.unit)})
        return "wrong-value", True
    return "ok", True


OTHER_UNIT = {"length": "km", "mass": "kg", "time": "yr", "velocity": "km/s", "density": "kg/m**3", "energy": "J", "dimensionless": "dimensionless",
              "temperature": "mK", "magnetic_gaussian": "mG", "magnetic_SI": "T", "electric_SI": "V/m", "capacitance": "F", "resistance": "ohm"}


def family_of(u):
    for fam, us in _arr.FAMILIES.items():
        if u in us:
            return fam
    raise KeyError(u)


def make_other(kind, u1, shape):
    """-> (object, physical CGS values, dims, tol, is_unitless_kind)"""
    import osyris

    fam = family_of(u1)
    if kind == "int":
        return 3, np.float64(3), M2.dims_of(), 0.0
    if kind == "float":
        return 2.5, np.float64(2.5), M2.dims_of(), 0.0
    if kind == "nd0":
        return np.array(2.0), np.float64(2.0), M2.dims_of(), 0.0
    if kind == "nd":
        v = _arr.values_for(shape, np.float64, 0, 1)
        return v, v.astype(float), M2.dims_of(), 0.0
    if kind == "nd1":
        v = np.array([4.0])
        return v, v, M2.dims_of(), 0.0
    if kind.startswith("Q"):
        if kind == "Q_same":
            u = u1
        elif kind == "Q_other":
            u = OTHER_UNIT[fam]
        elif kind == "Q_incompat":
            u = "K" if fam not in ("dimensionless", "temperature") else "s"
        else:
            u = OTHER_UNIT[fam]
        mag = 2.0 if kind != "Q_nd" else _arr.values_for(shape, np.float64, 0, 1)
        q = mag * osyris.units(u)
        s, d, t = _arr.uinfo(u)
        return q, np.asarray(mag, dtype=float) * s, d, t
    raise KeyError(kind)


def apply_op(op, a, b):
    if op == "add":
        return a + b
    if op == "sub":
        return a - b
    if op == "mul":
        return a * b
    if op == "div":
        return a / b
    raise KeyError(op)


def result_phys(r):
    """Array or Quantity (possibly wrapping an Array) -> (phys values, dims, tol, result dtype str, type name)"""
    import osyris
    from pint import Quantity

    if isinstance(r, osyris.Array):
        p, d, t = _arr.phys(r)
        return p, d, t, str(r.dtype), "Array"
    if isinstance(r, Quantity):
        s, d, t = M2.unit_info(r.units)
        m = r.magnitude
        if isinstance(m, osyris.Array):
            p, d2, t2 = _arr.phys(m)
            return p * s, tuple(x + y for x, y in zip(d, d2)), t + t2, str(m.dtype), "Quantity[Array]"
        return np.asarray(m, dtype=float) * s, d, t, str(np.asarray(m).dtype), "Quantity"
    return None


def check_binary(acc, idx, c, a, b, A, dA, tA, B, dB, tB, op, lhs_is_first, label, d_in):
    """Evaluate lhs op rhs where (a,A..) is the Array under test and (b,B..) the other operand."""
    x, y = (a, b) if lhs_is_first else (b, a)
    X, Y = (A, B) if lhs_is_first else (B, A)
    dX, dY = (dA, dB) if lhs_is_first else (dB, dA)
    sa, sb = _arr.snapshot(a), _arr.snapshot(b)
    compatible = tuple(dA) == tuple(dB)
    with np.errstate(all="ignore"):
        if op == "add":
            want, wd = X + Y, dX
        elif op == "sub":
            want, wd = X - Y, dX
        elif op == "mul":
            want, wd = X * Y, tuple(p + q for p, q in zip(dX, dY))
        else:
            want, wd = X / Y, tuple(p - q for p, q in zip(dX, dY))
    must_raise = op in ("add", "sub") and not compatible
    try:
        with np.errstate(all="ignore"):
            r = apply_op(op, x, y)
        raised = None
    except Exception as e:
        r, raised = None, type(e).__name__
    unchanged = _arr.snapshot(a) == sa and _arr.snapshot(b) == sb
    if not unchanged:
        acc.violation(f"C02:operand-modified:{op}:{label}", idx, c, {"raised": raised})
    if raised:
        if must_raise or not lhs_is_first:
            # a reversed operation that refuses (TypeError etc.) is not a wrong quantity
            return "raises"
        acc.violation(f"C02:raised-for-compatible-operands:{op}:{label}:{raised}", idx, c, {})
        return "raises-unexpected"
    if must_raise:
        acc.violation(f"C02:incompatible-dimensions-did-not-raise:{op}:{label}", idx, c, {"result": repr(r)[:120]})
        return "no-raise"
    rp = result_phys(r)
    if rp is None:
        acc.violation(f"C02:result-not-a-quantity:{op}:{label}", idx, c, {"type": type(r).__name__})
        return "bad-type"
    got, gd, gt, rdt, rtype = rp
    tol = _arr.eps_for(*d_in) + tA + tB + gt
    if tuple(gd) != tuple(wd):
        if tuple(gd) == M2.dims_of() and rdt not in ("float64", "int64"):
            acc.violation(f"C02:unit-dropped:result-dtype-{rdt}", idx, c, {"op": op, "expected_dims": [str(q) for q in wd]})
        else:
            acc.violation(f"C02:wrong-unit:{op}:{label}", idx, c, {"got_dims": [str(q) for q in gd], "expected_dims": [str(q) for q in wd]})
        return "wrong-unit"
    if not _arr.close(got, want, tol):
        acc.violation(f"C02:wrong-value:{op}:{label}", idx, c, {"got": np.asarray(got).ravel()[:4].tolist(), "expected": np.asarray(want).ravel()[:4].tolist()})
        return "wrong-value"
    return "ok"


def run_case(acc, idx, c):
    import osyris

    A_ = osyris.Array
    if c["block"] == "AA":
        dt1, dt2 = _arr.DTYPES[c["d1"]], _arr.DTYPES[c["d2"]]
        v1 = _arr.values_for(_arr.SHAPES[c["s1"]], dt1, c["vset"], 0)
        v2 = _arr.values_for(_arr.SHAPES[c["s2"]], dt2, c["vset"], 1)
        a, b = A_(v1, unit=c["u1"]), A_(v2, unit=c["u2"])
        A, dA, tA = _arr.phys(a)
        B, dB, tB = _arr.phys(b)
        out = check_binary(acc, idx, c, a, b, A, dA, tA, B, dB, tB, c["op"], True, "Array-Array", (dt1, dt2))
        return out, c["u1"] != c["u2"]
    if c["block"] == "AX":
        dt1 = _arr.DTYPES[c["d1"]]
        shape = _arr.SHAPES[c["s1"]]
        v1 = _arr.values_for(shape, dt1, 0, 0)
        a = A_(v1, unit=c["u1"])
        A, dA, tA = _arr.phys(a)
        b, B, dB, tB = make_other(c["kind"], c["u1"], shape)
        label = ("Array-" + c["kind"]) if c["side"] == "right" else (c["kind"] + "-Array")
        out = check_binary(acc, idx, c, a, b, A, dA, tA, B, dB, tB, c["op"], c["side"] == "right", label, (dt1,))
        return out, True
    if c["block"] == "SEQ":
        return run_sequence(acc, idx, c), True
    if c["block"] == "P":
        return run_power(acc, idx, c)
    # unary block
    dt1 = _arr.DTYPES[c["d1"]]
    v1 = _arr.values_for(_arr.SHAPES[c["s1"]], dt1, c["vset"], 0)
    a = A_(v1, unit=c["u1"])
    A, dA, tA = _arr.phys(a)
    sa = _arr.snapshot(a)
    op = c["op"]
    kt = c.get("ktype", "py")

    def num(v):
        # the number v as the requested kind of scalar
        v = int(v) if v == int(v) else v
        return {"py": lambda: v, "i8": lambda: np.int64(v), "i4": lambda: np.int32(v), "u1": lambda: np.uint8(v), "f4": lambda: np.float32(v),
                "f8": lambda: np.float64(v), "nd0": lambda: np.array(float(v)), "nd0i": lambda: np.array(int(v))}[kt]()

    with np.errstate(all="ignore"):
        if op == "neg":
            f, want, wd, k = (lambda: -a), -A, dA, 1
        elif op.startswith("pow"):
            k = float(op[3:])
            kk = num(k)
            f = lambda: a**kk  # noqa: E731
            want, wd = A.astype(float) ** k, tuple(q * Fraction(k).limit_denominator(12) for q in dA)
        elif op == "kmul":
            f, want, wd, k = (lambda: num(3) * a), 3 * A, dA, 1
        elif op == "kmul_f":
            f, want, wd, k = (lambda: num(2.5) * a), 2.5 * A, dA, 1
        else:
            f, want, wd, k = (lambda: num(3) / a), 3 / A.astype(float), tuple(-q for q in dA), 1
    try:
        with np.errstate(all="ignore"):
            r = f()
        raised = None
    except Exception as e:
        r, raised = None, type(e).__name__
    if _arr.snapshot(a) != sa:
        acc.violation(f"C02:operand-modified:{op}", idx, c, {})
    if raised:
        if op == "pow-1" and c["d1"] in ("i8", "i4") and kt in ("py", "i8", "i4", "nd0i"):
            return "raises", True  # numpy refuses integer ** negative integer
        acc.violation(f"C02:raised-for-valid-operand:{op}:{raised}", idx, c, {})
        return "raises-unexpected", True
    rp = result_phys(r)
    if rp is None:
        acc.violation(f"C02:result-not-a-quantity:{op}", idx, c, {"type": type(r).__name__})
        return "bad-type", True
    got, gd, gt, rdt, _ = rp
    tol = _arr.eps_for(dt1) + (tA + gt) * max(1.0, abs(k))
    if tuple(gd) != tuple(wd):
        if tuple(gd) == M2.dims_of() and rdt not in ("float64", "int64"):
            acc.violation(f"C02:unit-dropped:result-dtype-{rdt}", idx, c, {"op": op})
        else:
            acc.violation(f"C02:wrong-unit:{op}", idx, c, {"got_dims": [str(q) for q in gd], "expected_dims": [str(q) for q in wd]})
        return "wrong-unit", True
    if not _arr.close(got, want, tol):
        acc.violation(f"C02:wrong-value:{op}", idx, c, {"got": np.asarray(got).ravel()[:4].tolist(), "expected": np.asarray(want).ravel()[:4].tolist()})
        return "wrong-value", True
    return "ok", True


def run_sequence(acc, idx, c):
    import osyris

    dt = _arr.DTYPES[c["d1"]]
    a = osyris.Array(np.array([1.0, 2.0, 4.0], dtype=dt), unit=c["u1"])
    b = osyris.Array(np.array([8.0, 16.0, 32.0], dtype=dt), unit=c["u2"])
    out = "ok"
    for k, st in enumerate(c["steps"]):
        if st.startswith("mut") and "refused" in st:
            tgt = b if st.startswith("mut_b") else a
            snap = _arr.snapshot(tgt)
            two = osyris.Array(np.array([2.0, 4.0]), unit="s")
            try:
                with np.errstate(all="ignore"):
                    if st == "mut_b_refused_shape_imul":
                        b *= two
                    elif st == "mut_a_refused_shape_idiv":
                        a /= two
                    elif st == "mut_b_refused_int_idiv":
                        b /= osyris.Array(np.array(2.0), unit="s")
                    else:
                        np.sqrt(a, out=osyris.Array(np.zeros(2), unit="K") if False else a[:2]) if False else np.multiply(a, two, out=a)
                refused = False
            except Exception:
                refused = True
            if refused and _arr.snapshot(tgt) != snap:
                acc.violation("C02:operand-changed-by-a-refused-in-place-operation:" + st.split("_refused_")[1], idx, c,
                              {"before": str(snap)[:160], "after": str(_arr.snapshot(tgt))[:160]})
                return "violation"
            continue
        if st.startswith("mut"):
            try:
                with np.errstate(all="ignore"):
                    if st == "mut_b_imul":
                        b *= 2.0
                    elif st == "mut_b_iadd":
                        b += osyris.Array(np.array([1.0, 1.0, 1.0], dtype=dt), unit=c["u2"])
                    elif st == "mut_b_poke":
                        b.values[0] = dt(64.0)
                    elif st == "mut_a_imul":
                        a *= 0.5
                    elif st == "mut_b_unit_mul":
                        b *= osyris.Array(np.array([2.0, 2.0, 2.0], dtype=dt), unit="s")
            except Exception:
                pass  # an in-place update refused for incompatible units leaves the operand as it was
            continue
        A, dA, tA = _arr.phys(a)
        B, dB, tB = _arr.phys(b)
        op = {"add": "add", "sub": "sub", "mul": "mul", "div": "div", "radd": "add"}[st]
        x, y, X, Y, dX, dY = (a, b, A, B, dA, dB) if st != "radd" else (b, a, B, A, dB, dA)
        o = check_binary(acc, idx, c, x, y, X, dX, tA, Y, dY, tB, op, True, f"sequence-step-{'first' if k == 0 else 'after-earlier-steps'}", (dt,))
        if o not in ("ok", "raises"):
            out = o
            break
    return out


def work(payload):
    acc = Acc()
    thorough = payload["tier"] == "thorough"
    for idx, c in my_share(cases(thorough), payload):
        out, nontrivial = run_case(acc, idx, c)
        acc.case(nontrivial=nontrivial, outcome=out)
        acc.count("block:" + c["block"])
        if idx % 20011 == 0:
            acc.sample(c)
    return acc


def run(ctx):
    acc = Acc.merged(ctx.pool.shards(MOD, "work", ctx.base()))
    fams = _arr.FAMILIES if ctx.thorough else _arr.FAMILIES_QUICK
    cov = {
        "evaluations": acc.evaluations,
        "distinct_nontrivial": acc.nontrivial,
        "rule": "product enumeration, all cases distinct by construction; non-trivial = operands in different units, or a non-Array "
        "operand, or a unary/power/scalar operator",
        "samples": acc.samples,
        "exhaustive": True,
        "families": fams,
        "blocks": {k: v for k, v in acc.counters.items()},
        "outcomes": dict(acc.outcomes),
    }
    return {"level": LEVEL, "coverage": cov, "violations": acc.violation_list(), "errors": acc.errors,
            "assumptions": ["M2 unit table (independent of pint's registry and of osyris' defaults); pint is used only to parse unit labels",
                            "a reversed operation (number/ndarray/Quantity on the left) that raises is not a wrong quantity",
                            "integer ** negative integer is refused by numpy itself",
                            "float32 results are compared to 2e-6 relative, others to 1e-12 (+ the tolerance of astrophysical constants)"]}


def replay_sigs(case):
    acc = Acc()
    run_case(acc, 0, case)
    return list(acc.violations.keys())

"""C11 — thick maps reduce the sampled column and scale units consistently.

E1 + M3: meshes as in C03 x slab thickness dz from one pixel to the box (incl. slabs thinner than the cells
they cut) x windows x resolutions (int, dict with and without z) x the eight reductions x orientations;
every pixel is predicted by sampling the column at z_k = -dz/2 + (k + 1/2) dz / nz with brute-force point
location and reducing it with the same numpy function. E3: slab harnesses on evaluate_on_grid.
"""
import itertools

import numpy as np

from ..models import ramses as M1
from ..models import units as M2
from ..runner import Acc, my_share
from . import _map
from . import C03

LEVEL = "model_checking"
MOD = "mc.props.C11"

OPS = ["sum", "mean", "min", "max", "nansum", "nanmean", "nanmin", "nanmax"]
OFF = C03.OFF


def cases(thorough):
    T = C03.trees(thorough)
    if not thorough:
        T = [T[1], T[3], T[6], T[7], T[9]] + T[-4:]
    for ti, (tree, holes) in enumerate(T):
        ndim = tree["ndim"]
        base = {"tree": tree, "holes": holes}
        o = [0.5 + OFF] * ndim
        o2 = [0.25 + OFF, 0.625 + OFF, 0.375 + OFF][:ndim]
        # block A: dz x window x operation (product) at resolution 4
        for dz in (1 / 16, 1 / 8, 1 / 4, 1 / 2, 1.0):
            for w in (1 / 4, 1 / 2, 1.0):
                if dz < w / 4:
                    continue  # thinner than one pixel: outside the statement
                for op in OPS:
                    if not thorough and op not in ("sum", "mean", "nanmax") and (dz, w) not in ((1 / 4, 1.0), (1 / 16, 1 / 4)):
                        continue
                    yield dict(base, block="A", dz=dz, dx=w, resolution=4, operation=op, origin=o, direction="z")
                    if w == 1.0:
                        # ... the same reduction chosen on the layer instead of in the call
                        yield dict(base, block="A", dz=dz, dx=w, resolution=4, operation=op, origin=o, direction="z", operation_on_layer=True)
        # block B: resolutions (int, dict with and without z), exactly one pixel thick, other origins and axes
        for res in (2, 3, {"x": 3, "y": 2}, {"x": 2, "y": 2, "z": 3}, {"x": 4, "y": 4, "z": 1}, {"z": 2, "x": 3, "y": 3}):
            for dz in (1 / 2, 1.0):
                for op in ("sum", "nanmean", "min"):
                    yield dict(base, block="B", dz=dz, dx=1.0, resolution=res, operation=op, origin=o2, direction="z")
        for w, r in ((1.0, 4), (1 / 2, 2), (1 / 4, 4)):
            yield dict(base, block="B", dz=w / r, dx=w, resolution=r, operation="sum", origin=o, direction="z")
        for d in (["x", "y", "zyx"] if ndim == 3 else []):
            for dz in (1 / 4, 1 / 2):
                yield dict(base, block="B", dz=dz, dx=1 / 2, resolution=3, operation="sum", origin=o2, direction=d)
        # slabs much thinner than the cells, plane far from the cell centres
        for dz in (0.05, 0.02):
            for off in (0.2, 0.1, 0.0):
                oo = list(o)
                oo[-1] = 0.25 + off
                yield dict(base, block="T", dz=dz, dx=0.2, resolution=10, operation="sum", origin=oo, direction="z")
                yield dict(base, block="T", dz=dz, dx=1.0, resolution={"x": 4, "y": 4, "z": 2}, operation="mean", origin=oo, direction="z")
        # units: window in another unit than the positions
        for wu, pu, box in [("m", "cm", 1.0), ("cm", "m", 4.0), ("kpc", "au", 4.0), ("kpc", "kpc", 2.0**-26), ("m", "m", 2.0**-30), ("cm", "pc", 2.0**10)]:
            for op in ("sum", "mean"):
                yield dict(base, block="U", dz=1 / 2, dx=1.0, resolution=3, operation=op, origin=o, direction="z", win_unit=wu, pos_unit=pu, box=box)
        # block V: the kernels under map() on 2 and 3 virtual threads (static work split), depth resolutions that the
        # thread count does not divide; the layer varies along the normal on every refined mesh
        if ti % 2 == 0 or thorough:
            for T_ in (2, 3):
                for rz in (3, 4, 5):
                    for op in (OPS if thorough else ("mean", "nanmean", "sum", "nanmax")):
                        yield dict(base, block="V", dz=1.0, dx=1.0, resolution={"x": 3, "y": 3, "z": rz}, operation=op, origin=o2, direction="z", virtual_threads=T_)
                yield dict(base, block="V", dz=1.5, dx=1.5, resolution={"x": 5, "y": 4, "z": 5}, operation="nanmean", origin=o, direction="z", virtual_threads=T_)
        # block X: special values in the column (inf is a value; inf + -inf is NaN and therefore a missing pixel) and element types
        if ti % 2 == 1 or thorough:
            for sp in (["inf"], ["-inf", "inf"], ["fmax", "denorm", "negzero"]):
                for op in ("sum", "nanmean", "max", "nanmin"):
                    yield dict(base, block="X", dz=1 / 2, dx=1.0, resolution=4, operation=op, origin=o, direction="z", special=sp)
            for dtv in ("f4", "i8"):
                yield dict(base, block="X", dz=1 / 2, dx=1.0, resolution=4, operation="sum", origin=o, direction="z", dens_dtype=dtv)
        # block Z: scale. Several million depth samples (default 256 x 256 image, 77 depth samples; 300 x 300 x 51): a reduction that is split
        # into blocks of samples must still be the reduction of the whole column
        if ndim == 3 and tree.get("refined") and (ti in (3, 4) if thorough else ti == 3):
            for op, dzz, off in ((("mean", 0.3, 0.0), ("nanmean", 0.4, 0.35), ("sum", 0.3, 0.0)) if thorough else (("mean", 0.3, 0.0), ("nanmean", 0.4, 0.35))):
                oo = list(o)
                oo[-1] = oo[-1] + off if ndim == 3 else oo[-1]
                yield dict(base, block="Z", dz=dzz, dx=1.0, resolution=None, operation=op, origin=oo, direction="z")
            if thorough:
                yield dict(base, block="Z", dz=0.17, dx=1.0, resolution={"x": 300, "y": 300}, operation="mean", origin=o, direction="z")
        # block S: sequences of thick maps in one process, mixing the default resolution, partial dictionaries and ints
        if ti in (0, 2):
            K1 = dict(base, dz=2 / 256, dx=1.0, resolution=None, operation="sum", origin=o, direction="z")
            K2 = dict(K1, dz=8 / 256, operation="mean")
            K3 = dict(base, dz=4 / 16, dx=1.0, resolution={"x": 16, "y": 16}, operation="sum", origin=o, direction="z")
            K4 = dict(base, dz=2 / 8, dx=1.0, resolution=8, operation="nanmax", origin=o, direction="z")
            K5 = dict(base, dz=1 / 2, dx=1.0, resolution={"x": 4, "y": 4}, operation="sum", origin=o, direction="z")
            for seq in ([K1, K2], [K2, K1], [K1, K3], [K3, K1], [K1, K4, K2], [K3, K5], [K5, K3], [K4, K1, K3]):
                yield dict(base, block="S", sequence=[dict(x) for x in seq])
            # ... and with one Layer object handed to every call of the sequence (the operation is given to each call)
            K0 = dict(base, dz=1 / 4, dx=1.0, resolution=4, operation="sum", origin=o, direction="z")
            K6 = dict(K5, operation="mean")
            K7 = dict(K4, operation="max")
            for seq in ([K5, K6], [K6, K5], [K0, K6], [K0, K7, K5], [K7, K6], [K5, K7, K6]):
                yield dict(base, block="S", sequence=[dict(x) for x in seq], share_layer=True)
        if ndim == 3:
            normals = [(1, 1, 1), (-2, 1, 0), (1, 0, 2), (0, -1, 1), (2, -2, 1)] if not thorough else [n for n in itertools.product([-2, -1, 0, 1, 2], repeat=3) if n != (0, 0, 0)][::4]
            for n in normals:
                for dz in (1 / 4, 1 / 2):
                    yield dict(base, block="C", dz=dz, dx=1 / 2, resolution=3, operation="sum", origin=o, direction=["normal", list(n)])
                yield dict(base, block="C", dz=1 / 2, dx=1.0, resolution=3, operation="nanmin", origin=o2, direction=["normal", list(n)])


def run_single(acc, idx, c, report=None, shared=None):
    import osyris

    report = report or c
    if shared is not None and "mesh" in shared:
        mesh, centres, sizes, vals = shared["mesh"]
    else:
        mesh, centres, sizes, vals = _map.build_mesh(c)
        if shared is not None:
            # the calls of this sequence are given the same mesh and the same Layer object, as a script that keeps its layers does
            shared["mesh"] = (mesh, centres, sizes, vals)
            shared["layer"] = mesh.layer("density")
    box = c.get("box", 1.0)
    ndim = c["tree"]["ndim"]
    res = c.get("resolution")
    p, basis = _map.call_map(c, mesh, first_layer=None if shared is None else shared["layer"])
    thin = c["dz"] * box < sizes.min()
    tag = "slab-thinner-than-cells" if thin else "slab-not-thinner-than-cells"
    if isinstance(p, Exception):
        acc.violation(f"C11:map-raised:{type(p).__name__}:{tag}", idx, report, {"error": repr(p)[:200]})
        return "raises", True
    nx, ny = len(p.x), len(p.y)
    # depth resolution: given, or "the one making the step as close as possible to the pixel size": both
    # integers next to dz / pixel are accepted (the statement does not fix how ties and near-ties round)
    pts0, xs, ys, _ = _map.sample_points(c, p, basis)
    if isinstance(res, dict) and "z" in res:
        cands = [res["z"]]
    else:
        xsp = (xs[1] - xs[0]) if nx > 1 else c["dx"] * box / nx
        ysp = (ys[1] - ys[0]) if ny > 1 else c.get("dy", c["dx"]) * box / ny
        r = c["dz"] * box / (0.5 * (xsp + ysp))
        cands = sorted({max(1, int(np.floor(r + 1e-9))), max(1, int(np.ceil(r - 1e-9)))})
    results = [check_with_nz(c, p, basis, mesh, centres, sizes, vals, nz, tag) for nz in cands]
    good = [r for r in results if r[0] is None]
    if not good:
        sig, det = results[0][0], results[0][1]
        acc.violation(sig, idx, report, det)
        return "violation", True
    stats = good[0][2]
    acc.count("pixels", stats["pixels"])
    acc.count("columns_with_missing_samples", stats["missing"])
    acc.count("depth_samples", stats["samples"])
    return "ok", stats["nontrivial"]


def run_case(acc, idx, c):
    """one thick map, or a sequence of thick maps made one after the other in the same process"""
    if "sequence" not in c:
        return run_single(acc, idx, c)
    out, nontrivial = "ok", False
    shared = {} if c.get("share_layer") else None
    for k, sub in enumerate(c["sequence"]):
        before = set(acc.violations)
        o, nt = run_single(acc, idx, dict(sub, block=c["block"]), report=c, shared=shared)
        nontrivial = nontrivial or nt
        if o not in ("ok",) and not str(o).startswith("skipped"):
            out = o
            if k > 0:
                for sig in set(acc.violations) - before:
                    new = sig + ":only-after-earlier-calls"
                    acc.violations[new] = acc.violations.pop(sig)
                    acc.vcount[new] = acc.vcount.pop(sig)
                    for _, rec in acc.violations[new]:
                        rec["sig"] = new
            break
    return out, nontrivial


def check_with_nz(c, p, basis, mesh, centres, sizes, vals, nz, tag):
    """-> (sig or None, detail, stats)"""
    import warnings

    import osyris

    box = c.get("box", 1.0)
    nx, ny = len(p.x), len(p.y)
    pts, xs, ys, zs = _map.sample_points(c, p, basis, nz=nz)
    idxs, amb, touch, multi = _map.locate(centres, sizes, pts, box)
    dens = vals["density"]
    col = np.where(idxs >= 0, dens[np.where(idxs >= 0, idxs, 0)], np.nan)  # (nz, ny, nx)
    with np.errstate(all="ignore"), warnings.catch_warnings():
        warnings.simplefilter("ignore")
        want = getattr(np, c["operation"])(col, axis=0)
    op = c["operation"]
    pos_unit = c.get("pos_unit", "cm")
    sp = M2.unit_info(osyris.units(pos_unit))[0]
    lay = p.layers[0]
    data = np.ma.getdata(lay["data"])
    mask = np.ma.getmaskarray(lay["data"])
    if data.shape != (ny, nx):
        return "C11:image-shape", {"shape": list(data.shape)}, None
    s_u, d_u, t_u = M2.unit_info(lay["unit"])
    if op in ("sum", "nansum"):
        want_phys = want * (c["dz"] * box / nz) * sp
        want_dims = M2.dims_of(g=1, cm=-2)
    else:
        want_phys = want
        want_dims = M2.dims_of(g=1, cm=-3)
    if tuple(d_u) != tuple(want_dims):
        return f"C11:wrong-unit:{'sum' if op in ('sum', 'nansum') else 'other'}", {"unit": str(lay["unit"])}, None
    got_phys = data * s_u
    sure = ~amb.any(axis=0)
    exp_mask = np.isnan(want)
    bad = sure & (mask != exp_mask)
    if np.any(bad):
        j, i = np.argwhere(bad)[0]
        kind = "valid-pixel-masked" if mask[j, i] else "empty-column-not-masked"
        return f"C11:{kind}:{tag}", {"pixel": [int(j), int(i)], "column": col[:, j, i].tolist(), "nz": nz, "wrongly_masked": int((sure & mask & ~exp_mask).sum())}, None
    cmp = sure & ~exp_mask
    if np.any(cmp) and not np.allclose(got_phys[cmp], want_phys[cmp], rtol=1e-11, atol=0):
        k = np.argwhere(cmp & ~np.isclose(got_phys, want_phys, rtol=1e-11, atol=0))[0]
        return f"C11:wrong-value:{op}:{tag}", {"pixel": [int(k[0]), int(k[1])], "got": float(got_phys[k[0], k[1]]), "expected": float(want_phys[k[0], k[1]]),
                                               "column": col[:, k[0], k[1]].tolist(), "nz": nz}, None
    return None, None, {"pixels": nx * ny, "missing": int(np.isnan(col).any(axis=0).sum()), "samples": nx * ny * nz, "nontrivial": bool(np.any(cmp))}


def work(payload):
    acc = Acc()
    thorough = payload["tier"] == "thorough"
    for idx, c in my_share(cases(thorough), payload):
        out, nontrivial = run_case(acc, idx, c)
        acc.case(nontrivial=nontrivial, outcome=out)
        acc.count("block:" + c["block"])
        if idx % 1301 == 0:
            acc.sample(c)
    return acc


def run(ctx):
    a1 = Acc.merged(ctx.pool.shards(MOD, "work", ctx.base(), nshards=ctx.pool.n * 2))
    nh = len(C03.e3_harnesses_thick(ctx.thorough))
    a3 = Acc.merged(ctx.pool.shards("mc.props.C03", "e3_work", ctx.base(harness_set="thick"), nshards=nh))
    acc = Acc.merged([a1, a3])
    execs = a3.counters.get("executions", 0)
    cov = {
        "states": max(1, execs),
        "transitions": max(1, a3.counters.get("choice_points", 0) + execs),
        "traces_validated_against_impl": execs,
        "samples": (a3.samples[:2] + a1.samples[:3]) or [{}],
        "rule": "schedules as in C03 on slab harnesses (2-3 depth samples); inputs: (mesh, origin, orientation, window, dz, resolution, "
        "reduction) cases, distinct by construction; non-trivial = at least one unambiguous column with a value",
        "evaluations": a1.evaluations,
        "distinct_nontrivial": a1.nontrivial,
        "map_calls": a1.evaluations,
        "pixels_checked": a1.counters.get("pixels", 0),
        "depth_samples_located": a1.counters.get("depth_samples", 0),
        "columns_with_missing_samples": a1.counters.get("columns_with_missing_samples", 0),
        "blocks": {k: v for k, v in a1.counters.items() if k.startswith("block:")},
        "input_outcomes": dict(a1.outcomes),
        "schedules_executed": execs,
        "conflict_free_partitions": a3.counters.get("conflict_free_partitions", 0),
        "schedule_outcomes": dict(a3.outcomes),
        "preemption_bound": 2,
        "exhaustive": True,
    }
    return {"level": LEVEL, "coverage": cov, "violations": acc.violation_list(), "errors": acc.errors,
            "assumptions": ["columns containing a sample within 1e-9 box of a cell face are not compared",
                            "dz below half a pixel (zero depth samples) is outside the statement",
                            "in 2-D the normal used by map is the zero vector: all depth samples coincide",
                            "schedule exploration as in C03"]}


def replay_sigs(case):
    if case.get("kind") == "schedule":
        return C03.e3_replay(case, prop="C11")
    acc = Acc()
    run_case(acc, 0, case)
    return list(acc.violations.keys())

"""C15 — the outcome of load() does not depend on earlier loads on the same dataset.

E2 + M1: BFS over sequences of load() calls on one live RamsesDataset (3-D, 3 levels, 3 cpus,
Hilbert-consistent ownership, hydro + part + sink). After every call each group present must equal
what a *fresh* dataset returns for the most recent call in the history that produced that group;
groups not produced by the call are unchanged; ncells / nparticles match the groups just loaded;
the number of files opened equals the fresh run's.
"""
import os

import numpy as np

from ..engines import history
from ..models import ramses as M1
from ..runner import scratch_dir
from . import _load
from . import C13

LEVEL = "model_checking"
MOD = "mc.props.C15"

ACTIONS = [
    "full", "mesh_only", "part_only", "sink_only", "value_pred", "box", "level_le_2", "cpu_list_2",
    "sortby_part", "sortby_sink", "sortby_mesh", "part_only_sortby_names_mesh_too", "sink_only_sortby_names_every_group", "mesh_pred_matching_nothing", "part_pred_matching_nothing", "refused_sortby_with_level_cap", "refused_cpu_list_with_box", "mesh_vars", "part_vars", "amr_vars_only",
    "hydro_var_only", "slab_y", "slab_x", "box_far_corner", "groups_off_mesh", "refused_predicate_raises", "grav_var_only", "slab_z",
]


def make_output(variant=0):
    ndim = 3
    import itertools

    lvl1 = [(1, c) for c in itertools.product(range(2), repeat=3)]
    lvl2 = [(2, c) for c in itertools.product(range(4), repeat=3)]
    # levelmin = 3: the CPU pre-selection may use level-2 search cubes, so a corner box really prunes
    refined = lvl1 + lvl2
    bk = [0, 700, 2900, 4096] if variant == 0 else [0, 1500, 2000, 4096]
    tree = M1.Tree(ndim, 3, refined, levelmin=3)
    owner = M1.hilbert_owner(tree, bk)
    octs = tree.all_octs()
    ghosts = {k: {o for o in octs if owner[o] != k and (o[0] + k) % 2 == 0} for k in range(3)}
    out = M1.Output(tree, ncpu=3, owner=owner, ghosts=ghosts, bound_key=bk, unit_d=2.0, unit_l=3.0, unit_t=5.0,
                    boxlen=2.0, hydro="rvp", grav=True)
    out.part = M1.make_part(M1.part_descriptor(ndim), [2, 3, 1])
    out.sink = M1.make_sink(ndim, 3)
    # a column whose order is not the file order, so that a sorted table differs from the stored one
    lev = out.sink["keys"].index("level")
    for r, v in enumerate([3.0, 1.0, 2.0]):
        out.sink["rows"][r][lev] = v
    return out


def action_kwargs(name, out):
    import osyris

    cm = osyris.units("cm")
    box = out.boxlen * out.unit_l
    if name == "full":
        return {}
    if name == "mesh_only":
        return {"select": ["mesh"]}
    if name == "part_only":
        return {"select": ["part"]}
    if name == "sink_only":
        return {"select": ["sink"]}
    if name == "groups_off_mesh":
        return {"select": {"mesh": False}}
    if name == "value_pred":
        thr = 1300.0 * out.unit_d
        return {"select": {"mesh": {"density": lambda d: d >= thr * osyris.units("g/cm**3")}}}
    if name == "box":
        q = 0.26 * box
        return {"select": {"mesh": {"position_x": lambda x: x < q * cm, "position_y": lambda y: y < q * cm,
                                    "position_z": lambda z: z < q * cm}}}
    if name == "box_far_corner":
        q = 0.74 * box
        return {"select": {"mesh": {"position_x": lambda x: x > q * cm, "position_y": lambda y: y > q * cm,
                                    "position_z": lambda z: z > q * cm}}}
    # a predicate on one axis only (a slab): whatever earlier calls selected on the other axes must have no influence
    if name in ("slab_x", "slab_y", "slab_z"):
        q = 0.74 * box
        return {"select": {"mesh": {"position_" + name[-1]: lambda x: x > q * cm}}}
    if name == "level_le_2":
        return {"select": {"mesh": {"level": lambda l: l <= 2}}}
    if name == "cpu_list_2":
        return {"cpu_list": [2]}
    if name == "sortby_part":
        return {"sortby": {"part": "identity"}}
    if name == "sortby_sink":
        return {"sortby": {"sink": "level"}}
    if name == "sortby_mesh":
        return {"sortby": {"mesh": "density"}}
    # a sorting request that also names groups this call does not load: it concerns what the call loads
    if name == "part_only_sortby_names_mesh_too":
        return {"select": ["part"], "sortby": {"mesh": "density", "part": "identity"}}
    # a call that asks for a group and finds nothing for it: the group it leaves is the (empty) result of this call
    if name == "mesh_pred_matching_nothing":
        return {"select": {"mesh": {"density": lambda d: d.values > 1e300}}}
    if name == "part_pred_matching_nothing":
        return {"select": {"part": {"mass": lambda m: m.values < -1e300}, "mesh": False}}
    if name == "sink_only_sortby_names_every_group":
        return {"select": ["sink"], "sortby": {"mesh": "level", "part": "mass", "sink": "level"}}
    # calls that are rightly refused (after some of the call's settings have been taken into account)
    if name == "refused_sortby_with_level_cap":
        return {"select": {"mesh": {"level": lambda l: l <= 2}}, "sortby": {"mesh": "no_such_variable"}}
    if name == "refused_cpu_list_with_box":
        q = 0.26 * box
        return {"select": {"mesh": {"position_x": lambda x: x < q * cm, "level": lambda l: l <= 2}, "part": False}, "cpu_list": [7]}
    if name == "refused_predicate_raises":
        def boom(d):
            raise ZeroDivisionError("predicate failed")

        return {"select": {"mesh": {"level": lambda l: l <= 2, "density": boom}}}
    if name == "mesh_vars":
        return {"select": {"mesh": ["density", "position_x", "position_y", "position_z", "level"]}}
    # name lists that only one of the readers of the group can satisfy (the group is served by the amr, hydro and grav readers)
    if name == "amr_vars_only":
        return {"select": {"mesh": ["level", "dx"]}}
    if name == "hydro_var_only":
        return {"select": {"mesh": ["density"]}}
    if name == "grav_var_only":
        return {"select": {"mesh": ["grav_potential"]}}
    if name == "part_vars":
        return {"select": {"part": ["mass", "identity"]}}
    raise KeyError(name)


ALL_GROUPS = ("mesh", "part", "sink")


def requested_groups(kwargs):
    """The groups a load() call addresses, read off its own arguments (not off what the library returns for it)."""
    sel = kwargs.get("select")
    if sel is None:
        return set(ALL_GROUPS)
    if isinstance(sel, dict):
        return {g for g in ALL_GROUPS if sel.get(g, True) is not False}
    return {g for g in ALL_GROUPS if g in sel}


class Box:
    def __init__(self, ds):
        self.ds = ds


class Spec:
    _dirs = {}
    _fresh = {}

    def __init__(self, params):
        self.params = params
        self.variant = params.get("variant", 0)
        self.ops = list(params["actions"])
        self.out = make_output(self.variant)
        key = (os.getpid(), self.variant)
        if key not in Spec._dirs:
            d = scratch_dir()
            self.out.write(d)
            Spec._dirs[key] = d
        self.dir = Spec._dirs[key]

    def fresh_result(self, action):
        key = (os.getpid(), self.variant, action)
        if key not in Spec._fresh and self.params.get("refs_file") and os.path.exists(self.params["refs_file"]):
            # references computed by run(), each in a process of its own that had executed nothing else (a reference made in this
            # process could itself be affected by state the library keeps between calls)
            import pickle

            with open(self.params["refs_file"], "rb") as f:
                for (variant, act), ref in pickle.load(f).items():
                    Spec._fresh[(os.getpid(), variant, act)] = ref
        if key not in Spec._fresh:
            from ..runner import run_in_environment

            acc, err = run_in_environment(MOD, "fresh_action_acc", {"variant": self.variant, "action": action})
            if acc is not None and acc.samples:
                Spec._fresh[key] = acc.samples[0]
        if key not in Spec._fresh:
            Spec._fresh[key] = self._compute_fresh(action)
        return Spec._fresh[key]

    def _compute_fresh(self, action):
        if True:
            ds = _load.new_dataset(self.dir, self.out.nout)
            try:
                text = _load.call_load(ds, **action_kwargs(action, self.out))
            except Exception as e:
                return {"raised": type(e).__name__}
            return {
                "groups": C13.snapshot(ds),
                "ncells": int(ds.meta["ncells"]),
                "nparticles": int(ds.meta["nparticles"]),
                "nfiles": _load.processed_files(text),
                "lmax": int(ds.meta["lmax"]),
            }

    def fresh(self):
        ds = _load.new_dataset(self.dir, self.out.nout)
        return Box(ds), {"groups": {}}

    def canon(self, impl):
        ds = impl.ds
        readers = {}
        for name, r in ds.loader.readers.items():
            info = {"initialized": bool(r.initialized)}
            if hasattr(r, "variables"):
                info["variables"] = {k: bool(v["read"]) for k, v in r.variables.items()}
            if hasattr(r, "cpu_list"):
                info["cpu_list"] = None if r.cpu_list is None else [int(c) for c in r.cpu_list]
            # any other plain attribute of the reader is state too (caches, flags): finer canonical form, never coarser
            for k, v in vars(r).items():
                if k in ("initialized", "variables", "cpu_list", "kind") or k in info:
                    continue
                if isinstance(v, (bool, int, float, str, type(None), tuple)):
                    info["attr:" + k] = repr(v)
                elif isinstance(v, (dict, list, set)) and k.startswith("_"):
                    info["attr:" + k] = [len(v), sorted(repr(x)[:80] for x in v)]
            readers[name] = info
        meta = {}
        for k, v in ds.meta.items():
            if k in ("infofile", "infile", "path"):
                continue
            if isinstance(v, np.ndarray):
                v = v.tolist()
            meta[k] = repr(v)
        return [readers, meta, C13.snapshot(ds)]

    def step(self, impl, model, op):
        ds = impl.ds
        problems = []
        want = self.fresh_result(op)
        if "raised" in want:
            # a call that a fresh dataset refuses: it must be refused here too; what the groups hold afterwards is not
            # specified, so every group is unknown until a later call produces it again
            try:
                _load.call_load(ds, **action_kwargs(op, self.out))
                problems.append(("C15:call-refused-on-a-fresh-dataset-accepted-after-history", {"action": op, "fresh": want["raised"]}))
            except Exception:
                pass
            model["unknown"] = sorted(set(model["groups"]) | set(C13.snapshot(ds)))
            model["groups"] = {}
            return ["refused"], problems
        try:
            text = _load.call_load(ds, **action_kwargs(op, self.out))
        except Exception as e:
            import traceback

            return ["raised"], [(f"C15:load-raised-after-history:{type(e).__name__}", {"action": op, "trace": traceback.format_exc()[-400:]})]
        produced = set(want["groups"])
        for g in produced:
            model["groups"][g] = want["groups"][g]
        got = C13.snapshot(ds)
        # a group the call asked for and a fresh dataset does not have afterwards (nothing was found for it): whatever an earlier
        # call left under that name is not the outcome of this call
        for g in sorted(requested_groups(action_kwargs(op, self.out)) - produced):
            if g in model["groups"]:
                del model["groups"][g]
                if g in got and got[g]:
                    problems.append((f"C15:requested-group-keeps-rows-of-an-earlier-call:{g}", {"after": op, "rows_kept": _nrows(got[g])}))
                    got = {k: v for k, v in got.items() if k != g}
        unknown = set(model.get("unknown", [])) - produced
        model["unknown"] = sorted(unknown)
        for g in sorted(set(got) | set(model["groups"])):
            if g in unknown:
                continue
            if g not in got:
                problems.append((f"C15:group-lost:{g}", {"after": op}))
            elif g not in model["groups"]:
                problems.append((f"C15:group-appeared:{g}", {"after": op}))
            elif got[g] != model["groups"][g]:
                which = "just-loaded" if g in produced else "kept-from-earlier-call"
                keys_g, keys_m = sorted(got[g]), sorted(model["groups"][g])
                det = {"after": op, "keys_got": keys_g, "keys_expected": keys_m}
                if keys_g == keys_m:
                    det["first_differing"] = next(k for k in keys_g if got[g][k] != model["groups"][g][k])
                    det["rows_got"] = _nrows(got[g])
                    det["rows_expected"] = _nrows(model["groups"][g])
                problems.append((f"C15:group-differs-from-fresh:{g}:{which}", det))
        if "mesh" in produced and int(ds.meta["ncells"]) != want["ncells"]:
            problems.append(("C15:meta-ncells", {"got": int(ds.meta["ncells"]), "fresh": want["ncells"], "after": op}))
        if "part" in produced and int(ds.meta["nparticles"]) != want["nparticles"]:
            problems.append(("C15:meta-nparticles", {"got": int(ds.meta["nparticles"]), "fresh": want["nparticles"], "after": op}))
        nfiles = _load.processed_files(text)
        if nfiles != want["nfiles"]:
            problems.append(("C15:files-processed-differs-from-fresh", {"got": nfiles, "fresh": want["nfiles"], "after": op}))
        if "mesh" in produced and int(ds.meta["lmax"]) != want["lmax"]:
            problems.append(("C15:meta-lmax", {"got": int(ds.meta["lmax"]), "fresh": want["lmax"], "after": op}))
        return [nfiles, sorted(got)], problems


def _nrows(g):
    for k, e in g.items():
        if e[0] == "A":
            return len(e[2]) if isinstance(e[2], list) else 1
        return len(next(iter(e[1].values()))[1])
    return 0


def make_spec(name, params):
    return Spec(params)


def fresh_action(payload):
    """Worker (a process that has done nothing else): what a fresh dataset returns for one action."""
    spec = Spec({"actions": [payload["action"]], "variant": payload["variant"]})
    Spec._fresh.pop((os.getpid(), payload["variant"], payload["action"]), None)
    spec.params = {"actions": [payload["action"]], "variant": payload["variant"], "no_subprocess": True}
    return spec._compute_fresh(payload["action"])


def fresh_action_acc(payload):
    from ..runner import Acc

    acc = Acc()
    acc.samples.append(fresh_action(payload))
    return acc


ENV_ACTIONS = ["full", "mesh_only", "part_only", "value_pred", "cpu_list_2", "sortby_part", "level_le_2"]


def env_probe(payload):
    """a few loads, for discover_environment_reads()"""
    from ..runner import Acc

    spec = Spec({"actions": ENV_ACTIONS, "variant": 0})
    ds = _load.new_dataset(spec.dir, spec.out.nout)
    for a in ("full", "part_only", "value_pred"):
        _load.call_load(ds, **action_kwargs(a, spec.out))
    return Acc()


def env_work(payload):
    """Histories of a few kinds of load, to depth 3, inside an interpreter started with an environment variable the library reads: a
    setting of the environment may change what a load prints or how it works, not whether its outcome depends on earlier loads. The
    references are made first, in this same interpreter, each on a dataset of its own."""
    import pickle

    from ..runner import SerialPool

    spec = Spec({"actions": ENV_ACTIONS, "variant": 0})
    refs = {(0, a): spec._compute_fresh(a) for a in ENV_ACTIONS}
    refs_file = os.path.join(scratch_dir(), "c15-env-references.pickle")
    with open(refs_file, "wb") as f:
        pickle.dump(refs, f)
    _cov, acc = history.explore(SerialPool(), MOD, "loads", {"actions": ENV_ACTIONS, "variant": 0, "refs_file": refs_file}, 3, 1)
    return acc


def environment_replay(payload):
    case = payload["case"]
    if case.get("params", {}).get("refs_file") and not os.path.exists(case["params"]["refs_file"]):
        case = dict(case, params={k: v for k, v in case["params"].items() if k != "refs_file"})
    return [s for s, _ in history.replay_case(case)]


def run(ctx):
    from ..runner import discover_environment_reads, environment_acc

    # environment variables the library looks up while loading, each set to "1" for a reduced exploration of its own
    env_names = [n for n in discover_environment_reads(MOD, "env_probe", ctx.base()) if n not in ("HOME", "PATH", "PWD")]
    env_accs = [environment_acc(MOD, "env_work", ctx.base(), f"{n}=1") for n in env_names[:4]]
    acts = ACTIONS if ctx.thorough else ACTIONS[:23]
    depth = 4 if ctx.thorough else 3
    und = 3 if ctx.thorough else 2
    covs, accs = [], []
    import pickle

    variants = [0, 1] if ctx.thorough else [0]
    pairs = [(v, a) for v in variants for a in acts]
    refs = dict(zip(pairs, ctx.pool.map_fresh(MOD, "fresh_action", [{"variant": v, "action": a} for v, a in pairs])))
    refs_file = os.path.join(scratch_dir(), "c15-references.pickle")
    with open(refs_file, "wb") as f:
        pickle.dump(refs, f)
    for variant in variants:
        cov, acc = history.explore(ctx.pool, MOD, "loads", {"actions": acts, "variant": variant, "refs_file": refs_file}, depth, und)
        covs.append(cov)
        accs.append(acc)
    from ..runner import Acc

    acc = Acc.merged(accs + env_accs)
    cov = {
        "environment_variables_read_by_the_library": env_names,
        "states": sum(c["states"] for c in covs),
        "transitions": sum(c["transitions"] for c in covs),
        "traces_validated_against_impl": sum(c["transitions"] for c in covs),
        "samples": covs[0]["samples"],
        "per_output": [{k: v for k, v in c.items() if k != "samples"} for c in covs],
        "actions": acts,
        "exhaustive": True,
        "rule": "BFS over load() call sequences on one live RamsesDataset; canonical state = reader flags/variable read-sets/cpu_list, "
        "meta minus paths, digest of every group; oracle = fresh dataset per action (memoised)",
    }
    return {"level": LEVEL, "coverage": cov, "violations": acc.violation_list(), "errors": acc.errors,
            "assumptions": ["M1 writer as in C01; ownership follows the frozen Hilbert table",
                            "the oracle is the same code on a fresh object (differential): it shows history independence, not correctness of a single load"]}


def replay_sigs(case):
    if case.get("environment"):
        from ..runner import replay_in_environment

        return replay_in_environment(MOD, case)
    return [s for s, _ in history.replay_case(case)]

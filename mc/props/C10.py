"""C10 — numpy functions on Arrays return dimensionally correct units or refuse.

E1 + M2: product of a fixed function catalogue x unit assignments of the arguments (same, compatible but
different, incompatible, plain ndarray/number mixed in, Array not first, boolean-Array condition) x dtypes
x shapes x keyword forms (axis=, out=).
Oracle: values = numpy on the physical (CGS) values; unit by class of function. Operands that carry
different units must be converted or the call must raise; incompatible operands must raise.
"""
import numpy as np

from ..models import units as M2
from ..runner import Acc, my_share
from . import _arr

LEVEL = "exploration"
MOD = "mc.props.C10"

# ---- catalogue: name -> (callable on one array, kind); kinds: keep | pred
UNARY_KEEP = {
    "sum": lambda f, a: f.sum(a), "mean": lambda f, a: f.mean(a), "amin": lambda f, a: f.amin(a), "amax": lambda f, a: f.amax(a),
    "min": lambda f, a: f.min(a), "max": lambda f, a: f.max(a), "abs": lambda f, a: f.abs(a), "absolute": lambda f, a: f.absolute(a),
    "fabs": lambda f, a: f.fabs(a), "median": lambda f, a: f.median(a), "std": lambda f, a: f.std(a), "cumsum": lambda f, a: f.cumsum(a),
    "sort": lambda f, a: f.sort(a), "diff": lambda f, a: f.diff(a), "negative": lambda f, a: f.negative(a),
    "positive": lambda f, a: f.positive(a), "nansum": lambda f, a: f.nansum(a), "nanmin": lambda f, a: f.nanmin(a),
    "nanmax": lambda f, a: f.nanmax(a), "nanmean": lambda f, a: f.nanmean(a), "round": lambda f, a: f.round(a),
    "floor": lambda f, a: f.floor(a), "ceil": lambda f, a: f.ceil(a), "flip": lambda f, a: f.flip(a), "roll": lambda f, a: f.roll(a, 1),
    "take": lambda f, a: f.take(a, [0, -1]), "squeeze": lambda f, a: f.squeeze(a), "ravel": lambda f, a: f.ravel(a),
    "transpose": lambda f, a: f.transpose(a),
    "sum_axis0": lambda f, a: f.sum(a, axis=0), "mean_axis_last": lambda f, a: f.mean(a, axis=-1), "amax_axis0": lambda f, a: f.amax(a, axis=0),
    "cumsum_axis0": lambda f, a: f.cumsum(a, axis=0), "sort_axis0": lambda f, a: f.sort(a, axis=0), "std_axis0": lambda f, a: f.std(a, axis=0),
    "sum_keepdims": lambda f, a: f.sum(a, keepdims=True), "median_axis0": lambda f, a: f.median(a, axis=0),
    "diff_axis0": lambda f, a: f.diff(a, axis=0), "flip_axis0": lambda f, a: f.flip(a, axis=0),
}
UNARY_PRED = {"isfinite": lambda f, a: f.isfinite(a), "isnan": lambda f, a: f.isnan(a), "isinf": lambda f, a: f.isinf(a)}
# unit-transforming: name -> (call, exponent)
UNARY_POW = {
    "sqrt": (lambda f, a: f.sqrt(a), 0.5), "square": (lambda f, a: f.square(a), 2), "cbrt": (lambda f, a: f.cbrt(a), 1.0 / 3),
    "reciprocal": (lambda f, a: f.reciprocal(a), -1), "power2": (lambda f, a: f.power(a, 2), 2), "power3": (lambda f, a: f.power(a, 3), 3),
    "power0.5": (lambda f, a: f.power(a, 0.5), 0.5), "power-1": (lambda f, a: f.power(a, -1.0), -1),
}
# n-ary functions whose operands must share a unit (homogeneous of degree 1)
NARY_KEEP = {
    "add": lambda f, a, b: f.add(a, b), "subtract": lambda f, a, b: f.subtract(a, b), "maximum": lambda f, a, b: f.maximum(a, b),
    "minimum": lambda f, a, b: f.minimum(a, b), "fmax": lambda f, a, b: f.fmax(a, b),
    "concatenate": lambda f, a, b: f.concatenate([a, b]), "concatenate_tuple": lambda f, a, b: f.concatenate((a, b)),
    "concatenate_axis0": lambda f, a, b: f.concatenate([a, b], axis=0),
    "stack": lambda f, a, b: f.stack([a, b]), "hstack": lambda f, a, b: f.hstack([a, b]), "append": lambda f, a, b: f.append(a, b),
    "where_nd_cond": lambda f, a, b: f.where(np.asarray(_raw(a)) > np.median(np.asarray(_raw(a))), a, b),
    "clip_hi": lambda f, a, b: f.clip(a, None, b) if False else f.minimum(a, b),
}
NARY_PRED = {
    "less": lambda f, a, b: f.less(a, b), "less_equal": lambda f, a, b: f.less_equal(a, b), "greater": lambda f, a, b: f.greater(a, b),
    "greater_equal": lambda f, a, b: f.greater_equal(a, b), "equal": lambda f, a, b: f.equal(a, b), "not_equal": lambda f, a, b: f.not_equal(a, b),
}
NARY_MUL = {
    "multiply": (lambda f, a, b: f.multiply(a, b), +1), "divide": (lambda f, a, b: f.divide(a, b), -1),
    "true_divide": (lambda f, a, b: f.true_divide(a, b), -1),
}
del NARY_KEEP["clip_hi"]
# close relatives: other ways of putting the values of one operand next to, or into, those of another, and the other
# degree-1 binary functions
NARY_KEEP.update({
    "insert": lambda f, a, b: f.insert(a, 1, f.ravel(b) if np.ndim(_raw(b)) else b), "insert_kw": lambda f, a, b: f.insert(a, [0, 1], values=f.ravel(b)[:2] if np.ndim(_raw(b)) else b),
    "vstack": lambda f, a, b: f.vstack([a, b]), "column_stack": lambda f, a, b: f.column_stack([a, b]), "dstack": lambda f, a, b: f.dstack([a, b]),
    "fmin": lambda f, a, b: f.fmin(a, b), "hypot": lambda f, a, b: f.hypot(a, b), "copysign": lambda f, a, b: f.copysign(a, b),
    "fmod": lambda f, a, b: f.fmod(a, b), "mod": lambda f, a, b: f.mod(a, b), "remainder": lambda f, a, b: f.remainder(a, b),
})
STACKING = ("concatenate", "stack", "hstack", "append", "vstack", "column_stack", "dstack")
COMMUTATIVE = {k: NARY_KEEP[k] for k in ("add", "maximum", "minimum", "fmax", "fmin", "hypot")}
COMMUTATIVE["multiply"] = NARY_MUL["multiply"][0]


def _raw(x):
    import osyris
    from pint import Quantity

    if isinstance(x, osyris.Array):
        return x.values
    if isinstance(x, Quantity):
        return x.magnitude
    return x


UNIT_SETS = [("m", "m"), ("m", "cm"), ("cm", "km"), ("g", "M_sun"), ("m", "s"), ("g/cm**3", "erg"), ("dimensionless", "dimensionless"),
             ("percent", "dimensionless"), ("cm/m", "percent")]
SECOND_KIND = ["Array", "Quantity", "ndarray", "number", "ndarray_first", "Quantity_first"]


def cases(thorough):
    dts = ["f8", "f4", "i8", "i4"]
    shapes = ["3", "2x3", "1"] + (["0d"] if thorough else [])
    units1 = ["m", "cm", "M_sun", "g/cm**3", "km/s", "dimensionless", "yr", "percent", "deg"]
    for name in list(UNARY_KEEP) + list(UNARY_PRED) + list(UNARY_POW):
        for dt in dts:
            for sh in shapes:
                for u in units1:
                    yield {"block": "unary", "fn": name, "dt": dt, "shape": sh, "u": u}
    for name in list(NARY_KEEP) + list(NARY_PRED) + list(NARY_MUL):
        for kind in SECOND_KIND:
            if kind == "Quantity_first" and name in ("fmod", "mod", "remainder"):
                # numpy gives the call to the first operand: pint answers these three itself (a Quantity wrapped around whatever it
                # was given), without ever handing the call to osyris
                continue
            for (u1, u2) in UNIT_SETS:
                for dt in (dts if thorough else ["f8", "f4", "i8"]):
                    for sh in ["3", "2x3"]:
                        yield {"block": "nary", "fn": name, "kind": kind, "u1": u1, "u2": u2, "dt": dt, "shape": sh}
                    # a 0-d Array as the operand that carries the unit, against three values
                    if dt == "f8" and not name.startswith(STACKING + ("where", "insert")):
                        yield {"block": "nary", "fn": name, "kind": kind, "u1": u1, "u2": u2, "dt": dt, "shape": "3", "a0d": True}
    # sequences of calls on persistent Arrays: conversions, out= targets and in-place updates interleaved
    import itertools

    STEPS = ["np.add(a,r)", "np.maximum(a,r)", "np.concatenate([a,r])", "np.less(a,r)", "np.multiply(r,q,out=r)", "r*=q", "np.sqrt(r,out=r)",
             "np.add(r,r,out=r)", "np.cumsum(a,out=r)", "np.multiply(r,2.0,out=r)",
             # calls that numpy or osyris must refuse: the destination keeps its values and its unit
             "refused:np.multiply(r,q2,out=r)", "refused:np.add(r,t,out=r)", "refused:r*=q2"]
    for (u1, u2) in [("m", "km"), ("cm", "m"), ("g", "M_sun")]:
        for seq in itertools.product(STEPS, repeat=3):
            nmut = sum(1 for x in seq[:2] if "out=" in x or "*=" in x)
            if nmut == 0 or "out=" in seq[2] or "*=" in seq[2]:
                continue
            if not thorough and u1 == "g" and nmut == 2:
                continue
            yield {"block": "seq", "u1": u1, "u2": u2, "steps": list(seq), "dt": "f8", "shape": "3"}
    # out= forms and where/clip with unit-carrying bounds and boolean Array conditions
    for name in ("add_out", "multiply_out", "sqrt_out", "negative_out", "where_Array_cond", "clip_Arrays", "clip_numbers", "clip_kw",
                 "clip_kw_Arrays", "insert_kw_values", "sum_kw_initial", "diff_kw_prepend", "full_like_kw", "average_kw_weights"):
        for (u1, u2) in UNIT_SETS:
            for dt in ("f8", "f4"):
                for sh in ["3", "2x3"]:
                    yield {"block": "special", "fn": name, "u1": u1, "u2": u2, "dt": dt, "shape": sh}


def same_dims(u1, u2):
    return tuple(_arr.uinfo(u1)[1]) == tuple(_arr.uinfo(u2)[1])


def finish(acc, idx, c, call, want, wd, tol, must_raise, may_raise, dtypes, label):
    """call() -> result; compare with expected physical `want` (None = no value promised)."""
    try:
        with np.errstate(all="ignore"):
            r = call()
        raised = None
    except Exception as e:
        r, raised = None, type(e).__name__
    if raised:
        if must_raise or may_raise:
            return "raises"
        acc.violation(f"C10:raised:{label}:{raised}", idx, c, {})
        return "raises-unexpected"
    if must_raise:
        acc.violation(f"C10:incompatible-units-combined:{label}", idx, c, {"result": repr(r)[:100]})
        return "no-raise"
    from .C02 import result_phys

    rp = result_phys(r)
    # a pint Quantity as the first operand dispatches to pint: its result may be a Quantity
    if rp is None or (rp[4] != "Array" and not label.endswith("Quantity_first")):
        acc.violation(f"C10:result-not-an-Array:{label}", idx, c, {"type": type(r).__name__})
        return "bad-type"
    got, gd, gt = rp[0], rp[1], rp[2]
    if tuple(gd) != tuple(wd):
        acc.violation(f"C10:wrong-unit:{label}", idx, c, {"unit": str(getattr(r, "unit", getattr(r, "units", None))), "expected_dims": [str(q) for q in wd]})
        return "wrong-unit"
    if want is not None and not _arr.close(got, want, tol + gt):
        acc.violation(f"C10:wrong-value:{label}", idx, c, {"got": np.asarray(got).ravel()[:4].tolist(), "expected": np.asarray(want, dtype=float).ravel()[:4].tolist()})
        return "wrong-value"
    return "ok"


def run_case(acc, idx, c):
    import osyris
    from fractions import Fraction

    A_ = osyris.Array
    dt = _arr.DTYPES[c["dt"]]
    shape = _arr.SHAPES[c["shape"]]
    if c["block"] == "unary":
        name = c["fn"]
        v = _arr.values_for(shape, dt, 1 if name in ("abs", "absolute", "fabs", "negative", "sort", "median", "amin", "min") else 0, 0)
        a = A_(v, unit=c["u"])
        sa = _arr.snapshot(a)
        P, dP, tP = _arr.phys(a)
        scale = _arr.uinfo(c["u"])[0]
        axis_needs_nd = any(k in name for k in ("axis", "keepdims")) or name in ("diff", "transpose", "squeeze", "take", "roll", "flip", "sort", "cumsum", "ravel")
        if shape == () and axis_needs_nd:
            return "skipped-0d", False
        if name in UNARY_KEEP:
            fn = UNARY_KEEP[name]
            with np.errstate(all="ignore"):
                want = np.asarray(fn(np, v), dtype=np.float64) * scale
            out = finish(acc, idx, c, lambda: fn(np, a), want, dP, _arr.eps_for(dt) + tP, False, False, (dt,), "keep:" + name.split("_")[0] + (":kw" if "_" in name else ""))
        elif name in UNARY_PRED:
            fn = UNARY_PRED[name]
            want = np.asarray(fn(np, v), dtype=np.float64)
            out = finish(acc, idx, c, lambda: fn(np, a), want, M2.dims_of(), 0.0, False, False, (dt,), "pred:" + name)
        else:
            fn, k = UNARY_POW[name]
            if name in ("reciprocal",) and np.issubdtype(dt, np.integer):
                return "skipped-int-reciprocal", False
            with np.errstate(all="ignore"):
                want = np.asarray(P, dtype=np.float64) ** k
            wd = tuple(q * Fraction(k).limit_denominator(12) for q in dP)
            out = finish(acc, idx, c, lambda: fn(np, a), want, wd, _arr.eps_for(dt) + tP * abs(k) + 1e-12, False, False, (dt,), "transform:" + name)
        if _arr.snapshot(a) != sa:
            acc.violation("C10:argument-modified:" + name, idx, c, {})
        return out, c["u"] != "dimensionless"
    if c["block"] == "nary":
        name, kind = c["fn"], c["kind"]
        v1 = _arr.values_for(shape, dt, 0, 0)
        v2 = _arr.values_for(shape, np.float64, 0, 1)
        if c.get("a0d"):
            v1 = np.array(v1.reshape(-1)[1])
        a = A_(v1, unit=c["u1"])
        s1, d1, t1 = _arr.uinfo(c["u1"])
        s2, d2, t2 = _arr.uinfo(c["u2"])
        carries = kind in ("Array", "Quantity", "Quantity_first")
        if kind == "Array":
            b = A_(v2, unit=c["u2"])
        elif kind in ("Quantity", "Quantity_first"):
            b = v2 * osyris.units(c["u2"])
        elif kind in ("ndarray", "ndarray_first"):
            b = v2
        else:
            b = 2.0
            v2 = np.float64(2.0)
        first_is_array = kind not in ("ndarray_first", "Quantity_first")
        if kind == "Quantity_first" and tuple(d1) == tuple(M2.dims_of()) and (c["u1"], c["u2"]) != ("dimensionless", "dimensionless"):
            # numpy hands the call to pint (first operand), which takes the osyris Array for plain numbers when its own unit has no
            # dimension and returns a Quantity wrapped around an Array: not a call "on Arrays" that osyris gets to answer
            return "skipped-pint-dispatch-on-pure-numbers", False
        x, y = (a, b) if first_is_array else (b, a)
        P1 = v1.astype(np.float64) * s1
        # a bare operand is taken in the Array's unit (or refused); a unit-carrying one has its own
        P2 = np.asarray(v2, dtype=np.float64) * (s2 if carries else s1)
        dd2 = d2 if carries else d1
        if not carries and (name in ("add", "subtract") or name in NARY_PRED) and tuple(d1) == tuple(M2.dims_of()):
            # x + k is defined by the operators (C02): a bare number added to a pure-number Array is a pure number, whatever
            # the scale of the Array's unit (1 % + 3 = 3.01); numpy's add/subtract and comparison functions are those operators (C07)
            P2 = np.asarray(v2, dtype=np.float64)
        X, Y = (P1, P2) if first_is_array else (P2, P1)
        compatible = tuple(d1) == tuple(dd2)
        tol = _arr.eps_for(dt) + t1 + (t2 if carries else 0.0)
        may_raise = (not carries) or kind == "Quantity_first"
        label_kind = kind if not carries else ("unit-carrying" if kind == "Array" else kind)
        if name in COMMUTATIVE and kind in ("Array", "ndarray", "number", "ndarray_first"):
            # metamorphic: a commutative function refuses in both orders or gives the same physical quantity in both
            from .C02 import result_phys as _rp

            def outcome(f):
                try:
                    with np.errstate(all="ignore"):
                        r = f()
                except Exception:
                    return ("raises",)
                q = _rp(r)
                return ("value", q[0], tuple(q[1])) if q is not None else ("other", repr(r)[:60])

            fcom = COMMUTATIVE[name]
            o1, o2 = outcome(lambda: fcom(np, x, y)), outcome(lambda: fcom(np, y, x))
            same_outcome = o1[0] == o2[0] and (o1[0] != "value" or (o1[2] == o2[2] and _arr.close(o1[1], o2[1], tol + 1e-12)))
            if not same_outcome:
                acc.violation(f"C10:result-depends-on-operand-order:{name}:{label_kind.replace('_first', '')}", idx, c,
                              {"f(x,y)": o1[0], "f(y,x)": o2[0], "values": [np.ravel(o[1])[:3].tolist() if o[0] == "value" else None for o in (o1, o2)]})
                return "order-dependent", True
        if name in NARY_KEEP:
            fn = NARY_KEEP[name]
            if name == "where_nd_cond":
                cond = v1 > np.median(v1) if first_is_array else np.asarray(v2) > np.median(np.asarray(v2))
                want = np.where(cond, X, Y) if np.ndim(Y) or np.ndim(X) else None
                if np.ndim(cond) == 0:
                    return "skipped", False
            else:
                with np.errstate(all="ignore"):
                    want = fn(np, X, Y) if not (name.startswith(STACKING) and np.ndim(Y) == 0 and kind == "number") else None
                    if name.startswith("insert") and want is not None and first_is_array and np.issubdtype(dt, np.integer):
                        # numpy casts the inserted values to the element type of the array they go into, in that array's unit
                        want = np.asarray(fn(np, v1, np.asarray(P2, dtype=np.float64) / s1), dtype=np.float64) * s1
                    if name in ("fmod", "mod", "remainder") and want is not None:
                        q = np.asarray(X, dtype=np.float64) / np.asarray(Y, dtype=np.float64)
                        if np.any(np.abs(q - np.round(q)) < 1e-6):
                            want = None  # the remainder of an exact multiple hinges on the rounding of the conversion
            if want is None and name.startswith(tuple(x for x in STACKING if x != "append")) and kind == "number":
                return "skipped-scalar-sequence", False
            out = finish(acc, idx, c, lambda: fn(np, x, y), want, d1, tol, carries and not compatible, may_raise or (carries and c["u1"] != c["u2"]),
                         (dt,), f"same-unit:{name.split('_')[0]}:{label_kind}")
        elif name in NARY_PRED:
            fn = NARY_PRED[name]
            with np.errstate(all="ignore"):
                want = np.asarray(fn(np, X, Y), dtype=np.float64)
            # avoid verdicts that hinge on rounding of the conversion
            with np.errstate(all="ignore"):
                if np.any(np.isclose(X, Y, rtol=1e-6)) and c["u1"] != c["u2"]:
                    want = None
            # (a number without a unit next to a dimensional Array is refused, as by the comparison operators)
            refuse = (carries and not compatible) or (not carries and tuple(d1) != tuple(M2.dims_of()))
            out = finish(acc, idx, c, lambda: fn(np, x, y), want, M2.dims_of(), 0.0, refuse, may_raise or (carries and c["u1"] != c["u2"]),
                         (dt,), f"pred:{name}:{label_kind}")
        else:
            fn, sgn = NARY_MUL[name]
            with np.errstate(all="ignore"):
                want = fn(np, X, Y)
            dY = dd2 if carries else M2.dims_of()
            if not carries:
                # a bare operand of multiply/divide is a pure number
                P2n = np.asarray(v2, dtype=np.float64)
                Xn, Yn = (P1, P2n) if first_is_array else (P2n, P1)
                with np.errstate(all="ignore"):
                    want = fn(np, Xn, Yn)
            if first_is_array:
                wd = tuple(p + sgn * q for p, q in zip(d1, dY))
            else:
                wd = tuple(q + sgn * p for p, q in zip(d1, dY))
            out = finish(acc, idx, c, lambda: fn(np, x, y), want, wd, tol + 1e-12, False, kind == "Quantity_first", (dt,), f"transform:{name}:{label_kind}")
        return out, True
    if c["block"] == "seq":
        return run_sequence(acc, idx, c), True
    # ---- special forms
    name = c["fn"]
    v1 = _arr.values_for(shape, dt, 0, 0)
    v2 = _arr.values_for(shape, dt, 0, 1)
    a, b = A_(v1.copy(), unit=c["u1"]), A_(v2.copy(), unit=c["u2"])
    s1, d1, t1 = _arr.uinfo(c["u1"])
    s2, d2, t2 = _arr.uinfo(c["u2"])
    P1, P2 = v1.astype(float) * s1, v2.astype(float) * s2
    compatible = tuple(d1) == tuple(d2)
    tol = _arr.eps_for(dt) + t1 + t2
    diff_units = c["u1"] != c["u2"]
    if name == "add_out":
        o = A_(np.zeros(shape, dtype=np.float64), unit="K")

        def call():
            r = np.add(a, b, out=o)
            if r is not o:
                raise AssertionError("out= result is not the out object")
            return r

        return finish(acc, idx, c, call, P1 + P2, d1, tol, not compatible, diff_units, (dt,), "out:add"), True
    if name == "multiply_out":
        o = A_(np.zeros(shape, dtype=np.float64), unit="K")
        wd = tuple(p + q for p, q in zip(d1, d2))
        return finish(acc, idx, c, lambda: np.multiply(a, b, out=o), P1 * P2, wd, tol, False, False, (dt,), "out:multiply"), True
    if name == "sqrt_out":
        o = A_(np.zeros(shape, dtype=np.float64), unit="K")
        from fractions import Fraction as F

        return finish(acc, idx, c, lambda: np.sqrt(a, out=o), np.sqrt(P1), tuple(q * F(1, 2) for q in d1), tol, False, False, (dt,), "out:sqrt"), True
    if name == "negative_out":
        o = A_(np.zeros(shape, dtype=np.float64), unit="K")
        return finish(acc, idx, c, lambda: np.negative(a, out=o), -P1, d1, tol, False, False, (dt,), "out:negative"), True
    if name == "where_Array_cond":
        cond = A_(v1 > np.median(v1))
        want = np.where(v1 > np.median(v1), P1, P2)
        return finish(acc, idx, c, lambda: np.where(cond, a, b), want, d1, tol, not compatible, diff_units, (dt,), "same-unit:where:Array-cond"), True
    if name == "clip_Arrays":
        lo = A_(np.asarray(2, dtype=dt), unit=c["u1"])
        hi = A_(np.asarray(4, dtype=dt), unit=c["u2"])
        want = np.clip(P1, 2 * s1, max(4 * s2, 2 * s1)) if compatible else None
        if compatible and 4 * s2 < 2 * s1:
            want = None
        return finish(acc, idx, c, lambda: np.clip(a, lo, hi), want, d1, tol, not compatible, diff_units, (dt,), "same-unit:clip:Arrays"), True
    if name == "clip_numbers":
        want = np.clip(v1.astype(float), 2, 4) * s1
        return finish(acc, idx, c, lambda: np.clip(a, 2, 4), want, d1, tol, False, True, (dt,), "same-unit:clip:numbers"), c["u1"] != "dimensionless"
    if name == "clip_kw":
        want = np.clip(v1.astype(float), 2, 4) * s1
        return finish(acc, idx, c, lambda: np.clip(a, a_min=2, a_max=4), want, d1, tol, False, True, (dt,), "same-unit:clip:kw"), c["u1"] != "dimensionless"
    # operands handed over by keyword are operands: converted or refused like positional ones
    kinds = [("Array", lambda v, u: A_(np.asarray(v, dtype=np.float64), unit=u)), ("Quantity", lambda v, u: np.asarray(v, dtype=np.float64) * osyris.units(u))]
    outs = []
    for kname, mk in kinds:
        if name == "clip_kw_Arrays":
            lo, hi = mk(2.0, c["u2"]), mk(4.0, c["u2"])
            want = np.clip(P1, 2 * s2, 4 * s2) if compatible else None
            outs.append(finish(acc, idx, c, lambda: np.clip(a, a_min=lo, a_max=hi), want, d1, tol, not compatible, False, (dt,), f"same-unit:clip:kw-{kname}"))
        elif name == "insert_kw_values":
            vals = mk([7.0, 9.0], c["u2"])
            want = np.insert(P1.ravel(), [0, 1], np.array([7.0, 9.0]) * s2) if compatible else None
            if want is not None and np.issubdtype(dt, np.integer):
                want = None
            outs.append(finish(acc, idx, c, lambda: np.insert(a, [0, 1], values=vals), want, d1, tol, not compatible, False, (dt,), f"same-unit:insert:kw-{kname}"))
        elif name == "sum_kw_initial":
            ini = mk(5.0, c["u2"])
            want = np.sum(P1) + 5.0 * s2 if compatible else None
            outs.append(finish(acc, idx, c, lambda: np.sum(a, initial=ini), want, d1, tol, not compatible, False, (dt,), f"keep:sum:kw-initial-{kname}"))
        elif name == "diff_kw_prepend":
            if len(shape) != 1:
                return "skipped", False
            pre = mk([5.0], c["u2"])
            want = np.diff(P1, prepend=np.array([5.0]) * s2) if compatible else None
            outs.append(finish(acc, idx, c, lambda: np.diff(a, prepend=pre), want, d1, tol, not compatible, False, (dt,), f"keep:diff:kw-prepend-{kname}"))
        elif name == "full_like_kw":
            fv = mk(5.0, c["u2"])
            want = np.full(shape, 5.0 * s2) if compatible else None
            outs.append(finish(acc, idx, c, lambda: np.full_like(a, fill_value=fv), want, d1, tol, not compatible, False, (dt,), f"keep:full_like:kw-{kname}"))
        elif name == "average_kw_weights":
            # weights carry a unit of their own, which cancels: any unit is fine
            if len(shape) != 1:
                return "skipped", False
            w = mk(np.arange(1.0, shape[0] + 1.0), c["u2"])
            want = np.average(P1, weights=np.arange(1.0, shape[0] + 1.0))
            outs.append(finish(acc, idx, c, lambda: np.average(a, weights=w), want, d1, tol, False, False, (dt,), f"keep:average:kw-weights-{kname}"))
        else:
            raise KeyError(name)
    return ("ok" if all(o == "ok" for o in outs) else outs[0]), True


def run_sequence(acc, idx, c):
    """a (u1) and r (u2) persist; observing steps are checked against M2 on the operands' current state."""
    import osyris

    a = osyris.Array(np.array([1.0, 2.0, 4.0]), unit=c["u1"])
    r = osyris.Array(np.array([8.0, 16.0, 32.0]), unit=c["u2"])
    q = osyris.Array(np.array([2.0, 2.0, 2.0]), unit=c["u2"])
    out = "ok"
    for k, st in enumerate(c["steps"]):
        PA, dA, tA = _arr.phys(a)
        PR, dR, tR = _arr.phys(r)
        PQ, dQ, tQ = _arr.phys(q)
        compatible = tuple(dA) == tuple(dR)
        tol = 1e-12 + tA + tR + tQ
        lab = f"sequence:{st.split('(')[0]}:{'first-step' if k == 0 else 'after-earlier-steps'}"
        with np.errstate(all="ignore"):
            if st == "np.add(a,r)":
                o = finish(acc, idx, c, lambda: np.add(a, r), PA + PR, dA, tol, not compatible, True, (np.float64,), lab)
            elif st == "np.maximum(a,r)":
                o = finish(acc, idx, c, lambda: np.maximum(a, r), np.maximum(PA, PR), dA, tol, not compatible, True, (np.float64,), lab)
            elif st == "np.concatenate([a,r])":
                o = finish(acc, idx, c, lambda: np.concatenate([a, r]), np.concatenate([PA, PR]), dA, tol, not compatible, True, (np.float64,), lab)
            elif st == "np.less(a,r)":
                want = None if np.any(np.isclose(PA, PR, rtol=1e-6)) else np.less(PA, PR).astype(float)
                o = finish(acc, idx, c, lambda: np.less(a, r), want, M2.dims_of(), 0.0, not compatible, True, (np.float64,), lab)
            elif st == "np.multiply(r,q,out=r)":
                o = finish(acc, idx, c, lambda: np.multiply(r, q, out=r), PR * PQ, tuple(x + y for x, y in zip(dR, dQ)), tol, False, False, (np.float64,), lab)
            elif st == "r*=q":
                def f():
                    nonlocal r
                    r *= q
                    return r
                o = finish(acc, idx, c, f, PR * PQ, tuple(x + y for x, y in zip(dR, dQ)), tol, False, False, (np.float64,), lab)
            elif st == "np.sqrt(r,out=r)":
                from fractions import Fraction as F
                o = finish(acc, idx, c, lambda: np.sqrt(r, out=r), np.sqrt(PR), tuple(x * F(1, 2) for x in dR), tol, False, False, (np.float64,), lab)
            elif st == "np.add(r,r,out=r)":
                o = finish(acc, idx, c, lambda: np.add(r, r, out=r), PR + PR, dR, tol, False, False, (np.float64,), lab)
            elif st == "np.multiply(r,2.0,out=r)":
                o = finish(acc, idx, c, lambda: np.multiply(r, 2.0, out=r), PR * 2.0, dR, tol, False, False, (np.float64,), lab)
            elif st.startswith("refused:"):
                q2 = osyris.Array(np.array([2.0, 2.0]), unit=c["u2"])  # wrong length: numpy refuses
                t = osyris.Array(np.array([1.0, 1.0, 1.0]), unit="s")  # incompatible unit: osyris refuses
                before = _arr.snapshot(r)
                try:
                    if st == "refused:np.multiply(r,q2,out=r)":
                        np.multiply(r, q2, out=r)
                    elif st == "refused:np.add(r,t,out=r)":
                        np.add(r, t, out=r)
                    else:
                        r *= q2
                    acc.violation(f"C10:invalid-call-not-refused:{lab}", idx, c, {"step": st})
                    o = "accepted-invalid"
                except Exception:
                    o = "raises"
                    if _arr.snapshot(r) != before:
                        acc.violation("C10:refused-call-changed-its-destination:" + ("first-step" if k == 0 else "after-earlier-steps"), idx, c,
                                      {"step": st, "unit_after": str(r.unit), "values_after": np.asarray(r.values).tolist()})
                        o = "destination-corrupted"
            elif st == "np.cumsum(a,out=r)":
                # the statement does not say which unit an array function gives its out= argument: values only
                try:
                    np.cumsum(a, out=r)
                    o = "ok"
                except Exception:
                    o = "raises"
            else:
                raise KeyError(st)
        if o not in ("ok", "raises"):
            out = o
            break
    return out


def work(payload):
    acc = Acc()
    thorough = payload["tier"] == "thorough"
    for idx, c in my_share(cases(thorough), payload):
        res = run_case(acc, idx, c)
        out, nontrivial = res if isinstance(res, tuple) else (res, True)
        acc.case(nontrivial=nontrivial and not str(out).startswith("skipped"), outcome=out)
        acc.count("block:" + c["block"])
        if idx % 7001 == 0:
            acc.sample(c)
    return acc


def env_cases():
    """n-ary functions on operands in units whose size the user's configuration defines (see runner.ENVIRONMENTS["user-constants"])"""
    for name in list(NARY_KEEP) + list(NARY_PRED) + list(NARY_MUL):
        for kind in ("Array", "Quantity"):
            for (u1, u2) in (("g", "M_sun"), ("M_sun", "g"), ("cm", "R_sun"), ("R_sun", "km")):
                yield {"block": "nary", "fn": name, "kind": kind, "u1": u1, "u2": u2, "dt": "f8", "shape": "3"}
    for name in ("clip_kw_Arrays", "insert_kw_values", "sum_kw_initial"):
        for (u1, u2) in (("g", "M_sun"), ("R_sun", "cm")):
            yield {"block": "special", "fn": name, "u1": u1, "u2": u2, "dt": "f8", "shape": "3"}


def env_work(payload):
    if payload.get("environment") == "user-constants":
        M2.use_user_constants()
    acc = Acc()
    for idx, c in enumerate(env_cases()):
        res = run_case(acc, idx, c)
        out, nontrivial = res if isinstance(res, tuple) else (res, True)
        acc.case(nontrivial=True, outcome=out)
    return acc


def environment_replay(payload):
    if payload.get("environment") == "user-constants":
        M2.use_user_constants()
    return replay_sigs(payload["case"])


def run(ctx):
    from ..runner import EnvironmentRuns

    envruns = EnvironmentRuns(MOD, "env_work", ctx.base(), ("user-constants",))
    acc = Acc.merged(ctx.pool.shards(MOD, "work", ctx.base()) + envruns.results())
    cov = {
        "evaluations": acc.evaluations,
        "distinct_nontrivial": acc.nontrivial,
        "rule": "product: function catalogue x unit assignments x second-operand kinds x dtypes x shapes; all cases distinct by "
        "construction; non-trivial = the argument carries a non-dimensionless unit (unary) or the call has two operands / a keyword form",
        "samples": acc.samples,
        "exhaustive": True,
        "catalogue": {"unit_preserving_unary": sorted(UNARY_KEEP), "predicates_unary": sorted(UNARY_PRED), "transforming_unary": sorted(UNARY_POW),
                      "same_unit_nary": sorted(NARY_KEEP), "predicates_nary": sorted(NARY_PRED), "transforming_nary": sorted(NARY_MUL),
                      "special": ["add_out", "multiply_out", "sqrt_out", "negative_out", "where_Array_cond", "clip_Arrays", "clip_numbers", "clip_kw"]},
        "blocks": dict(acc.counters),
        "outcomes": dict(acc.outcomes),
    }
    return {"level": LEVEL, "coverage": cov, "violations": acc.violation_list(), "errors": acc.errors,
            "assumptions": ["index-valued functions (argsort, argmax...), var, prod and transcendental functions are outside the statement",
                            "a bare number/ndarray carries no unit: it may be taken in the dispatching operand's unit or be refused",
                            "operands carrying different compatible units: converted result or an exception are both accepted; incompatible units must raise",
                            "M2 unit table"]}


def replay_sigs(case):
    if case.get("environment"):
        from ..runner import replay_in_environment

        return replay_in_environment(MOD, case)
    acc = Acc()
    run_case(acc, 0, case)
    return list(acc.violations.keys())

"""C07 — comparisons and logical operators compare physical quantities.

E1 + M2: six comparisons x right operand kind (Array, number, ndarray, Quantity) x left dtypes x shape
pairs x every ordered unit pair within each family plus incompatible pairs, on values built to flip the
verdict only after conversion (rhs = lhs * {0.99, 1, 1.01} expressed in the other unit); four logical
operators on boolean Arrays over all truth patterns, shapes and operand kinds.
"""
import itertools
import operator

import numpy as np

from ..models import units as M2
from ..runner import Acc, my_share
from . import _arr
from .C02 import unit_pairs

LEVEL = "exploration"
MOD = "mc.props.C07"

CMP = {"lt": operator.lt, "le": operator.le, "gt": operator.gt, "ge": operator.ge, "eq": operator.eq, "ne": operator.ne}
NP_CMP = {"lt": np.less, "le": np.less_equal, "gt": np.greater, "ge": np.greater_equal, "eq": np.equal, "ne": np.not_equal}
SHAPE_PAIRS = [("3", "3"), ("0d", "0d"), ("3", "0d"), ("0d", "3"), ("2x3", "3"), ("2x3", "2x3"), ("1", "3")]
FACT = np.array([0.99, 1.0, 1.01])


def cases(thorough):
    fams = _arr.FAMILIES if thorough else _arr.FAMILIES_QUICK
    up = unit_pairs(fams)
    for op in CMP:
        for (u1, u2, compat) in up:
            for d1 in ("f8", "f4", "i8", "i4"):
                for (s1, s2) in SHAPE_PAIRS:
                    for kind in ("Array", "Quantity"):
                        if not thorough and kind == "Quantity" and (s1, s2) != ("3", "3"):
                            continue
                        yield {"block": "cmp", "op": op, "u1": u1, "u2": u2, "d1": d1, "s1": s1, "s2": s2, "kind": kind}
                        # the sibling spelling of the same comparison: the numpy function instead of the operator
                        if d1 in ("f8", "i8") and (s1, s2) in (("3", "3"), ("3", "0d"), ("0d", "3")):
                            yield {"block": "cmp", "op": op, "u1": u1, "u2": u2, "d1": d1, "s1": s1, "s2": s2, "kind": kind, "route": "numpy"}
        # exact integer pairs (both operands integers)
        for (u1, u2, ratio) in (("m", "cm", 100), ("kg", "g", 1000), ("km", "m", 1000)):
            for d1, d2 in (("i8", "i8"), ("i4", "i4"), ("i8", "i4"), ("f8", "i8")):
                yield {"block": "cmp_int", "op": op, "u1": u1, "u2": u2, "ratio": ratio, "d1": d1, "d2": d2}
        # unit-less right operands
        for kind in ("int", "float", "nd", "nd0"):
            for u1 in [us[-1] for us in fams.values()]:
                for d1 in ("f8", "f4", "i8"):
                    for s1 in ("3", "0d", "2x3"):
                        yield {"block": "cmp_bare", "op": op, "u1": u1, "d1": d1, "s1": s1, "kind": kind}
        # ... the unit-less operand written on the left (numpy then hands the comparison of an ndarray or numpy scalar to the Array),
        # through the numpy function, and boolean operands (masks) on either side: a number without a unit is a pure number wherever
        # it stands, so it is compared as one with a pure-number Array and refused next to a dimensional one
        for kind in ("int", "float", "nd", "nd0", "npfloat", "bool-Array", "bool-nd", "py-bool"):
            for u1 in [us[-1] for us in fams.values()]:
                for s1 in ("3", "0d"):
                    for side, route in (("left", "operator"), ("right", "numpy"), ("left", "numpy")) + ((("right", "operator"),) if kind.startswith(("bool", "py-bool", "npfloat")) else ()):
                        yield {"block": "cmp_bare", "op": op, "u1": u1, "d1": "f8", "s1": s1, "kind": kind, "side": side, "route": route}
    # a comparison that is refused (shapes that cannot be broadcast, incompatible units, an operand that is not a number), followed in the
    # same process by comparisons that must be answered as ever: a refusal leaves nothing behind
    for refusal in ("shapes", "shapes-numpy", "units", "shapes-inplace-add"):
        for op in CMP:
            for route in ("operator", "numpy"):
                for (u1, u2) in (("m", "cm"), ("km", "m"), ("percent", "dimensionless")):
                    yield {"block": "after_refusal", "refusal": refusal,
                           "then": {"block": "cmp", "op": op, "u1": u1, "u2": u2, "d1": "f8", "s1": "3", "s2": "3", "kind": "Array", "route": route}}
                yield {"block": "after_refusal", "refusal": refusal,
                       "then": {"block": "cmp_bare", "op": op, "u1": "percent", "d1": "f8", "s1": "3", "kind": "nd", "side": "left", "route": route}}
                yield {"block": "after_refusal", "refusal": refusal,
                       "then": {"block": "cmp_bare", "op": op, "u1": "m", "d1": "f8", "s1": "3", "kind": "nd", "side": "left", "route": route}}
    for op in ("and", "or", "xor", "not"):
        for s in ("4", "2x2", "0d"):
            for kind in ("Array", "nd", "bool"):
                for pat in range(4 if s == "0d" else 1):
                    yield {"block": "logic", "op": op, "shape": s, "kind": kind, "pat": pat}


def run_case(acc, idx, c):
    import osyris

    A_ = osyris.Array
    blk = c["block"]
    if blk == "after_refusal":
        a3, b2, t3 = A_(np.array([1.0, 2.0, 3.0]), unit="m"), A_(np.array([150.0, 150.0]), unit="cm"), A_(np.array([1.0, 2.0, 3.0]), unit="s")
        try:
            if c["refusal"] == "shapes":
                a3 < b2
            elif c["refusal"] == "shapes-numpy":
                np.less(a3, b2)
            elif c["refusal"] == "units":
                a3 < t3
            else:
                a3 += b2
            acc.violation("C07:comparison-of-unbroadcastable-or-incompatible-operands-answered:" + c["refusal"], idx, c, {})
        except Exception:
            pass
        before = set(acc.violations)
        out = run_case(acc, idx, c["then"])
        for sig in set(acc.violations) - before:
            new = sig + ":after-a-refused-operation"
            acc.violations[new] = acc.violations.pop(sig)
            acc.vcount[new] = acc.vcount.pop(sig)
            for _, rec in acc.violations[new]:
                rec["sig"] = new
                rec["case"] = c
        return out
    if blk in ("cmp", "cmp_int", "cmp_bare"):
        op = NP_CMP[c["op"]] if c.get("route") == "numpy" else CMP[c["op"]]
        s1i, d1i, t1i = _arr.uinfo(c["u1"])
        if blk == "cmp":
            sh1, sh2 = _arr.SHAPES[c["s1"]], _arr.SHAPES[c["s2"]]
            dt1 = _arr.DTYPES[c["d1"]]
            v1 = _arr.values_for(sh1, dt1, 0, 0)
            s2i, d2i, t2i = _arr.uinfo(c["u2"])
            compatible = tuple(d1i) == tuple(d2i)
            # rhs = lhs * factor, expressed in u2 (broadcast-compatible shape sh2)
            B = np.broadcast_shapes(sh1, sh2)
            base = np.broadcast_to(v1.astype(np.float64), B)
            if sh2 == B:
                src = base
            elif sh2 == ():
                src = np.float64(base.ravel()[0])
            else:
                src = base[(0,) * (len(B) - len(sh2))]
            pick = (len(c["u1"]) + len(c["u2"]) + len(c["op"]) + len(c["d1"])) % 3
            fac = np.float64(FACT[pick]) if sh2 == () else np.resize(np.roll(FACT, pick), sh2)
            v2 = src * fac * (s1i / s2i)
            a = A_(v1, unit=c["u1"])
            b = A_(v2, unit=c["u2"]) if c["kind"] == "Array" else v2 * osyris.units(c["u2"])
            P1 = v1.astype(np.float64) * s1i
            P2 = np.asarray(v2, dtype=np.float64) * s2i
            tol = 1e-9 + t1i + t2i
        elif blk == "cmp_int":
            dt1, dt2 = _arr.DTYPES[c["d1"]], _arr.DTYPES[c["d2"]]
            v1 = np.array([1, 2, 3], dtype=dt1)
            v2 = np.array([99, 200, 301], dtype=dt2) * (c["ratio"] // 100)
            a, b = A_(v1, unit=c["u1"]), A_(v2, unit=c["u2"])
            s2i, d2i, t2i = _arr.uinfo(c["u2"])
            P1, P2 = v1.astype(np.float64) * s1i, v2.astype(np.float64) * s2i
            compatible, tol = True, 1e-12
            sh1 = sh2 = (3,)
        else:
            dt1 = _arr.DTYPES[c["d1"]]
            sh1 = _arr.SHAPES[c["s1"]]
            v1 = _arr.values_for(sh1, dt1, 0, 0)
            a = A_(v1, unit=c["u1"])
            k = c["kind"]
            pattern = np.resize(np.array([True, False, True]), sh1 or (1,))
            b = {"int": 2, "float": 2.0, "nd0": np.array(2.0), "nd": np.full(sh1 or (1,), 2.0), "npfloat": np.float64(2.0),
                 "bool-Array": A_(pattern.copy()), "bool-nd": pattern.copy(), "py-bool": True}[k]
            sh2 = np.shape(b) if k != "bool-Array" else pattern.shape
            P1 = v1.astype(np.float64) * s1i
            P2 = np.asarray(pattern if k == "bool-Array" else b, dtype=np.float64)
            compatible = tuple(d1i) == M2.dims_of()
            tol = 1e-12
        sa, sb = _arr.snapshot(a), _arr.snapshot(b)
        if c.get("side") == "left":
            # b (op) a
            a, b, P1, P2, sa, sb = b, a, P2, P1, sb, sa
        try:
            r = op(a, b)
            raised = None
        except Exception as e:
            r, raised = None, type(e).__name__
        if _arr.snapshot(a) != sa or _arr.snapshot(b) != sb:
            acc.violation(f"C07:operand-modified:{c['op']}", idx, c, {})
        label = f"{c['op']}:{c.get('kind', 'Array')}" + (f":unit-less-operand-on-the-{c['side']}:{c.get('route', 'operator')}" if "side" in c else "")
        if not compatible:
            if raised:
                return "raises", True
            acc.violation(f"C07:incompatible-dimensions-answered:{label}", idx, c, {"result": repr(r)[:100]})
            return "no-raise", True
        if raised:
            acc.violation(f"C07:raised-for-compatible-operands:{label}:{raised}", idx, c, {})
            return "raises-unexpected", True
        if not isinstance(r, osyris.Array):
            acc.violation(f"C07:result-not-an-Array:{label}", idx, c, {"type": type(r).__name__})
            return "bad-type", True
        if r.dtype != bool or tuple(M2.unit_info(r.unit)[1]) != M2.dims_of():
            acc.violation(f"C07:result-not-dimensionless-bool:{label}", idx, c, {"dtype": str(r.dtype), "unit": str(r.unit)})
            return "bad-result", True
        bshape = np.broadcast_shapes(np.shape(P1), np.shape(P2))
        if tuple(r.shape) != tuple(bshape):
            acc.violation(f"C07:result-shape:{label}", idx, c, {"got": list(r.shape), "expected": list(bshape)})
            return "bad-shape", True
        X, Y = np.broadcast_arrays(P1, P2)
        want = getattr(np, {"lt": "less", "le": "less_equal", "gt": "greater", "ge": "greater_equal", "eq": "equal", "ne": "not_equal"}[c["op"]])(X, Y)
        ambiguous = np.isclose(X, Y, rtol=tol, atol=0)
        got = np.asarray(r.values)
        bad = (got != want) & ~ambiguous
        if np.any(bad):
            j = int(np.argmax(bad.ravel()))
            acc.violation(f"C07:wrong-verdict:{label}", idx, c, {"lhs_cgs": float(X.ravel()[j]), "rhs_cgs": float(Y.ravel()[j]), "got": bool(got.ravel()[j])})
            return "wrong", True
        return "ok", bool(np.any(~ambiguous))
    # ---- logical operators
    op = c["op"]
    if c["shape"] == "0d":
        p, q = np.array(bool(c["pat"] & 2)), np.array(bool(c["pat"] & 1))
    else:
        p = np.array([True, True, False, False])
        q = np.array([True, False, True, False])
        if c["shape"] == "2x2":
            p, q = p.reshape(2, 2), q.reshape(2, 2)
    a = A_(p.copy())
    if c["kind"] == "Array":
        b = A_(q.copy())
    elif c["kind"] == "nd":
        b = q.copy()
    else:
        b = bool(q.ravel()[0])
        q = np.full(p.shape, b)
    try:
        if op == "and":
            r, want = a & b, np.logical_and(p, q)
        elif op == "or":
            r, want = a | b, np.logical_or(p, q)
        elif op == "xor":
            r, want = a ^ b, np.logical_xor(p, q)
        else:
            r, want = ~a, np.logical_not(p)
    except Exception as e:
        acc.violation(f"C07:logical-raised:{op}:{c['kind']}:{type(e).__name__}", idx, c, {})
        return "raises-unexpected", True
    if not isinstance(r, osyris.Array) or r.dtype != bool or tuple(M2.unit_info(r.unit)[1]) != M2.dims_of():
        acc.violation(f"C07:logical-result-type:{op}", idx, c, {"type": type(r).__name__})
        return "bad-result", True
    if r.shape != want.shape or not np.array_equal(np.asarray(r.values), want):
        acc.violation(f"C07:logical-wrong:{op}:{c['kind']}", idx, c, {"got": np.asarray(r.values).tolist(), "expected": want.tolist()})
        return "wrong", True
    return "ok", True


def work(payload):
    acc = Acc()
    thorough = payload["tier"] == "thorough"
    for idx, c in my_share(cases(thorough), payload):
        out, nontrivial = run_case(acc, idx, c)
        acc.case(nontrivial=nontrivial, outcome=out)
        acc.count("block:" + c["block"])
        if idx % 9001 == 0:
            acc.sample(c)
    return acc


def run(ctx):
    acc = Acc.merged(ctx.pool.shards(MOD, "work", ctx.base()))
    cov = {
        "evaluations": acc.evaluations,
        "distinct_nontrivial": acc.nontrivial,
        "rule": "product enumeration (distinct by construction); non-trivial = at least one element whose verdict is decided away from "
        "the rounding band, or an incompatible/logical case",
        "samples": acc.samples,
        "exhaustive": True,
        "blocks": dict(acc.counters),
        "outcomes": dict(acc.outcomes),
    }
    return {"level": LEVEL, "coverage": cov, "violations": acc.violation_list(), "errors": acc.errors,
            "assumptions": ["elements within the rounding band of equality after conversion accept both verdicts",
                            "an operand without a unit is a pure number on either side of the comparison", "M2 unit table"]}


def replay_sigs(case):
    acc = Acc()
    run_case(acc, case.get("_idx", 0), case)
    return list(acc.violations.keys())

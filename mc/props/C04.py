"""C04 — selective loading equals filtering the full load; CPU pre-selection is sound.

Layer 1 (curve structure): for every cell of the 2^b grid, b <= 3 (quick) / 4 (thorough), the tree's
   _hilbert3d is a bijection, consecutive keys are face neighbours, keys nest (prefix property) and
   agree with the frozen table.
Layer 2 (soundness of the real _get_cpu_list / hilbert_cpu_list, tree-free): for every dyadic box,
   every bound_key sequence on a cut lattice (all cuts at L=2 in the thorough tier), every levelmin and
   lmax, the returned list must contain the owner of every *potential* cell (any level in
   levelmin..lmax) whose centre lies in the box. Quantifying over potential cells is quantifying over
   all trees, since any such cell is a leaf of some tree.
Layer 3 (end-to-end): trees x Hilbert-consistent decompositions x predicates (intervals on 1-3 axes
   incl. boxes smaller than the leaf they hit and boxes touching the edges, value predicates, AND of
   both, explicit cpu_list, non-Hilbert ordering): load(select)['mesh'] == filter(load()['mesh']).
"""
import itertools
import os

import numpy as np

from ..models import hilbert as H
from ..models import ramses as M1
from ..runner import Acc, my_share, scratch_dir
from . import _load
from . import C13

LEVEL = "exploration"
MOD = "mc.props.C04"


# ------------------------------------------------------------------ layer 1


def layer1(payload):
    from osyris.io import hilbert as impl

    acc = Acc()
    bmax = 4 if payload["tier"] == "thorough" else 3
    for b in range(1, bmax + 1):
        n = 2**b
        inv = {}
        for idx, (x, y, z) in my_share(itertools.product(range(n), repeat=3), payload):
            k = int(impl._hilbert3d(x, y, z, b))
            acc.case(nontrivial=b > 1)
            if k != H.hilbert3d(x, y, z, b):
                acc.violation("C04:hilbert-key-differs-from-frozen-table", (b, idx), {"layer": 1, "b": b, "cell": [x, y, z]},
                              {"got": k, "frozen": H.hilbert3d(x, y, z, b)})
            if b > 1 and k // 8 != int(impl._hilbert3d(x // 2, y // 2, z // 2, b - 1)):
                acc.violation("C04:hilbert-prefix-property", (b, idx), {"layer": 1, "b": b, "cell": [x, y, z]}, {"key": k})
            inv[k] = (x, y, z)
        acc.counters["keys:%d" % b] = len(inv)
    return acc


def layer1_global(thorough):
    """bijection + adjacency need the whole grid: done in one process on the frozen-table-checked keys."""
    from osyris.io import hilbert as impl

    problems = []
    for b in range(1, (3 if thorough else 2) + 1):
        pr = H.validate_curve(b, key=lambda x, y, z, bl: int(impl._hilbert3d(x, y, z, bl)))
        for p in pr[:3]:
            problems.append(("C04:hilbert-structure:" + p[0], {"b": b, "detail": list(map(str, p))}))
    # the frozen table itself (cheap, pure python) to a deeper level
    for b in range(1, 5):
        if H.validate_curve(b):
            problems.append(("harness:frozen-table-invalid", {"b": b}))
    return problems


# ------------------------------------------------------------------ layer 2


def intervals(n):
    return [(a, b) for a in range(n) for b in range(a, n)]


def required_keys(ndim, L, box, levelmin, lmax):
    """Hilbert keys (resolution 2^(L+1)) of the father-cell centres of every potential cell of level
    levelmin..lmax whose centre lies strictly inside the box; box = per-axis (i0,i1) on the finest grid,
    meaning the open interval (i0+0.25, i1+0.75)/2^L. -> dict key -> (level, coords) of one such cell"""
    keys = {}
    for l in range(max(1, min(levelmin, lmax)), lmax + 1):
        rng = []
        for (i0, i1) in box:
            if l == L:
                cs = range(i0, i1 + 1)
            else:
                w = 2 ** (L - l)
                # centre at k=(c+0.5)*w on the finest-edge lattice; inside iff i0+1 <= k <= i1
                cs = [c for c in range(2**l) if i0 + 1 <= (c * w + w // 2) <= i1]
            rng.append(list(cs))
        for c in itertools.product(*rng):
            father = tuple(x // 2 for x in c)
            k = M1.cell_key(ndim, L, l - 1, father)
            keys.setdefault(k, (l, c))
    return keys


def write_info(dirname, ncpu, ndim, L, levelmin, bound_key):
    tree = M1.Tree(ndim, L, [(l, c) for l in range(1, levelmin) for c in itertools.product(range(2**l), repeat=ndim)], levelmin)
    out = M1.Output(tree, ncpu=ncpu, bound_key=bound_key)
    os.makedirs(os.path.dirname(dirname), exist_ok=True)
    f = dirname + "-info.txt"
    out._write_info(f)
    return f


def cut_lattice(L, ndim, thorough, all_cuts):
    top = (2 ** (L + 1)) ** ndim
    if all_cuts:
        return list(range(1, top))
    step = top // 64 if top >= 64 else 1
    cuts = set()
    for v in range(step, top, step):
        cuts.update({v, v + 1, v - 1})
    return sorted(c for c in cuts if 0 < c < top)


def layer2_cases(thorough):
    """yield (L, levelmin, lmax, ncpu, cuts-list-id) blocks; boxes are enumerated inside."""
    yield (2, 1, 2, 2, "all" if thorough else "lattice")
    yield (2, 2, 2, 2, "all" if thorough else "lattice")
    yield (2, 1, 1, 2, "lattice")
    yield (2, 1, 2, 3, "pairs")
    yield (3, 1, 3, 2, "lattice")
    yield (3, 2, 3, 2, "lattice")
    yield (3, 3, 3, 2, "lattice")
    yield (3, 1, 2, 2, "lattice")
    # levelmin cells 4 finest cells wide (levelmax - levelmin = 2): boxes around an oct boundary that are no wider than them
    yield (4, 2, 4, 2, "lattice")
    yield (4, 2, 3, 2, "lattice")
    if thorough:
        yield (4, 3, 4, 2, "lattice")
        yield (4, 1, 4, 2, "lattice")
        yield (3, 1, 3, 3, "pairs")
        yield (3, 2, 2, 2, "lattice")


def boxes_for(L, thorough):
    n = 2**L
    iv = intervals(n)
    if L >= 4:
        # boxes at most one levelmin=2 cell (4 finest cells) wide, placed around the oct boundary at 8, plus a few others
        sub = [(7, 10), (6, 9), (5, 8), (8, 11), (7, 8), (6, 7), (8, 9), (7, 7), (9, 10), (4, 7), (0, 15)]
        if thorough:
            sub += [(3, 6), (11, 14), (12, 15), (0, 3), (2, 5), (10, 13)]
        return list(itertools.product(sub, repeat=3))
    if L <= 2 or thorough:
        return list(itertools.product(iv, repeat=3))
    # quick, L=3: per-axis intervals of length 1,2,n plus those touching an edge; full product of those
    sub = [(0, 0), (3, 3), (4, 4), (7, 7), (1, 2), (3, 4), (6, 7), (0, 3), (4, 7), (2, 5), (0, 7)]
    return list(itertools.product(sub, repeat=3))


def layer2(payload):
    from osyris.io import hilbert as impl

    acc = Acc()
    thorough = payload["tier"] == "thorough"
    d = scratch_dir()
    for bi, (L, levelmin, lmax, ncpu, cutmode) in enumerate(layer2_cases(thorough)):
        ndim = 3
        top = (2 ** (L + 1)) ** ndim
        if cutmode == "pairs":
            lat = cut_lattice(L, ndim, thorough, False)[:: (3 if thorough else 8)]
            cutsets = [[0, a, b, top] for a, b in itertools.combinations(lat, 2)]
            cutsets += [[0, a, a, top] for a in lat[::4]]  # an empty middle domain
        else:
            cutsets = [[0, c, top] for c in cut_lattice(L, ndim, thorough, cutmode == "all")]
        infos = []
        for ci, bk in enumerate(cutsets):
            infos.append(write_info(os.path.join(d, f"b{bi}c{ci}"), ncpu, ndim, L, levelmin, bk))
        n = 2**L
        for idx, box in my_share(boxes_for(L, thorough), payload):
            req = required_keys(ndim, L, box, levelmin, lmax)
            dmax = max((i1 + 1 - i0) / n for i0, i1 in box)
            rec = capture_call(impl, box, lmax, levelmin, L, infos[0], ncpu, ndim)
            for ci, bk in enumerate(cutsets):
                got = pruned_list(impl, rec, infos[ci], ncpu)
                need = {}
                for k, cell in req.items():
                    need.setdefault(M1.owner_of_key(k, bk) + 1, cell)
                missing = sorted(set(need) - set(got))
                acc.case(nontrivial=len(set(got)) < ncpu, outcome="pruned" if len(set(got)) < ncpu else "all")
                if missing:
                    cell = need[missing[0]]
                    coarse = 0.5 ** cell[0] >= dmax
                    sig = "C04:cpu-list-drops-owner:" + ("leaf-not-smaller-than-box" if coarse else "leaf-smaller-than-box")
                    acc.violation(sig, (bi, idx, ci), {"layer": 2, "L": L, "levelmin": levelmin, "lmax": lmax, "ncpu": ncpu,
                                                         "box": [list(b) for b in box], "bound_key": bk},
                                  {"returned": [int(g) for g in got], "missing_cpu": missing, "cell": [cell[0], list(cell[1])]})
            if idx % 5003 == 0:
                acc.sample({"layer": 2, "L": L, "levelmin": levelmin, "lmax": lmax, "box": [list(b) for b in box], "bound_key": cutsets[len(cutsets) // 2]})
    return acc


def sliver_cases(thorough):
    """Deep trees (levelmax 14): a domain that is a sliver of a few dozen to a few thousand keys right after (or before) the first
    key of a level-3 search cube, and small boxes around the cell where the curve enters that cube."""
    L, levelmin = 14, 4  # levelmin 4: the pre-selection may use level-3 search cubes; levelmax 14: keys up to 3.5e13
    n = 2**L
    for h in ((0, 7, 40, 63, 300, 511) if thorough else (7, 40, 300)):
        # the level-3 cell with Hilbert index h, then down the entry child (smallest key) to the finest level
        cell = next(c for c in itertools.product(range(8), repeat=3) if H.hilbert3d(c[0], c[1], c[2], 3) == h)
        cube = cell
        for lev in range(4, L + 1):
            kids = [tuple(2 * x + o for x, o in zip(cell, off)) for off in itertools.product((0, 1), repeat=3)]
            cell = min(kids, key=lambda k: H.hilbert3d(k[0], k[1], k[2], lev))
        c = h * 8 ** (L + 1 - 3)
        top = (2 ** (L + 1)) ** 3
        side = 2 ** (L - 3)
        for w in (1, 3, 8, -3):
            if w > 0:
                # inside the cube (one search cube, whose first key is c) ...
                box = [(max(cx * side, x - w), min((cx + 1) * side - 1, x + w)) for x, cx in zip(cell, cube)]
            else:
                # ... and straddling its corner (several search cubes)
                box = [(max(0, x + w), min(n - 1, x - w)) for x in cell]
            cutsets = []
            for delta in (64, 512, 4096, 16384, 8**5):
                cutsets.append([0, c, c + delta, top])
                if c - delta > 0:
                    cutsets.append([0, c - delta, c, top])
            yield {"L": L, "levelmin": levelmin, "lmax": L, "ncpu": 3, "box": box, "cutsets": cutsets, "cube": h}
            yield {"L": L, "levelmin": levelmin, "lmax": L - 2, "ncpu": 3, "box": box, "cutsets": cutsets[:4], "cube": h}


def layer2_sliver(payload):
    from osyris.io import hilbert as impl

    acc = Acc()
    d = scratch_dir()
    for idx, c in my_share(sliver_cases(payload["tier"] == "thorough"), payload):
        L, levelmin, lmax, ncpu, box = c["L"], c["levelmin"], c["lmax"], c["ncpu"], [tuple(b) for b in c["box"]]
        infos = [write_info(os.path.join(d, f"s{idx}c{ci}"), ncpu, 3, L, levelmin, bk) for ci, bk in enumerate(c["cutsets"])]
        req = required_keys(3, L, box, levelmin, lmax)
        n = 2**L
        dmax = max((i1 + 1 - i0) / n for i0, i1 in box)
        rec = capture_call(impl, box, lmax, levelmin, L, infos[0], ncpu, 3)
        for ci, bk in enumerate(c["cutsets"]):
            got = pruned_list(impl, rec, infos[ci], ncpu)
            need = {}
            for k, cell in req.items():
                need.setdefault(M1.owner_of_key(k, bk) + 1, cell)
            missing = sorted(set(need) - set(got))
            acc.case(nontrivial=len(set(got)) < ncpu, outcome="pruned" if len(set(got)) < ncpu else "all")
            acc.count("sliver_domains_needed", int(2 in need))
            if missing:
                cell = need[missing[0]]
                sig = "C04:cpu-list-drops-owner:" + ("leaf-not-smaller-than-box" if 0.5 ** cell[0] >= dmax else "leaf-smaller-than-box") + ":sliver-domain"
                acc.violation(sig, (7000, idx, ci), {"layer": 2, "L": L, "levelmin": levelmin, "lmax": lmax, "ncpu": ncpu, "box": [list(b) for b in box], "bound_key": bk},
                              {"returned": [int(g) for g in got], "missing_cpu": missing, "cell": [cell[0], list(cell[1])]})
    return acc


def capture_call(impl, box, lmax, levelmin, L, infofile, ncpu, ndim):
    """Run the real outer routine hilbert_cpu_list(meta, scaling, select, infofile) with real interval
    predicates for this box, recording the arguments with which it invokes _get_cpu_list (so that any
    adjustment the outer routine makes is honoured). Returns the recorded kwargs, or None when the
    outer routine decides not to prune (all files are read)."""
    import osyris

    n = 2**L
    cm = osyris.units("cm")
    sel = {}
    for ax, (i0, i1) in zip("xyz", box):
        lo, hi = (i0 + 0.25) / n, (i1 + 0.75) / n
        sel["position_" + ax] = (lambda lo, hi: (lambda x: (x > lo * cm) & (x < hi * cm)))(lo, hi)
    meta = {"ordering type": "hilbert", "boxlen": 1.0, "levelmax": L, "levelmin": levelmin, "lmax": lmax,
            "ncpu": ncpu, "ndim": ndim, "infofile": infofile}
    rec = {}
    real = impl._get_cpu_list

    def recorder(*a, **kw):
        if a:
            raise RuntimeError("harness: _get_cpu_list called positionally")
        rec.update(kw)
        return "RECORDED"

    impl._get_cpu_list = recorder
    try:
        import inspect

        params = inspect.signature(impl.hilbert_cpu_list).parameters
        if "scaling" in params:
            r = impl.hilbert_cpu_list(meta=meta, scaling=1.0 * cm, select=sel, infofile=infofile)
        else:
            # the seam was given the whole units library instead of one scaling: a library in which every length is in cm
            class _AllCm(dict):
                def __missing__(self, key):
                    return 1.0 * cm

            r = impl.hilbert_cpu_list(meta=meta, units=_AllCm(), select=sel, infofile=infofile)
    finally:
        impl._get_cpu_list = real
    if r is None:
        return None
    if r != "RECORDED":
        raise RuntimeError("harness: hilbert_cpu_list did not go through _get_cpu_list")
    return rec


def pruned_list(impl, rec, infofile, ncpu):
    if rec is None:
        return list(range(1, ncpu + 1))
    return impl._get_cpu_list(**dict(rec, infofile=infofile))


def replay_layer2(case):
    from osyris.io import hilbert as impl

    L, levelmin, lmax, ncpu = case["L"], case["levelmin"], case["lmax"], case["ncpu"]
    box = [tuple(b) for b in case["box"]]
    bk = case["bound_key"]
    d = scratch_dir()
    info = write_info(os.path.join(d, "replay"), ncpu, 3, L, levelmin, bk)
    n = 2**L
    dmax = max((i1 + 1 - i0) / n for i0, i1 in box)
    got = pruned_list(impl, capture_call(impl, box, lmax, levelmin, L, info, ncpu, 3), info, ncpu)
    req = required_keys(3, L, box, levelmin, lmax)
    need = {}
    for k, cell in req.items():
        need.setdefault(M1.owner_of_key(k, bk) + 1, cell)
    missing = sorted(set(need) - set(got))
    if not missing:
        return []
    cell = need[missing[0]]
    return ["C04:cpu-list-drops-owner:" + ("leaf-not-smaller-than-box" if 0.5 ** cell[0] >= dmax else "leaf-smaller-than-box") + (":sliver-domain" if L >= 10 else "")]


# ------------------------------------------------------------------ layer 3


def l3_outputs(thorough):
    """(label, ndim, L, levelmin, refined, ncpu, bound_key, ordering)"""
    outs = []
    t3a = [(1, (0, 0, 0)), (1, (1, 1, 1)), (2, (0, 0, 0))]
    t3b = [(1, (1, 0, 1)), (2, (3, 0, 2)), (2, (2, 1, 3))]
    t3c = []
    for name, ref, L in (("3d-a", t3a, 3), ("3d-b", t3b, 3), ("3d-flat", t3c, 2)):
        top = (2 ** (L + 1)) ** 3
        cuts2 = [top // 8, top // 2, top // 2 + 9, 3 * top // 4 + 1]
        for c in cuts2 if thorough else cuts2[:3]:
            outs.append((f"{name}-2cpu-{c}", 3, L, 1, ref, 2, [0, c, top], "hilbert"))
        outs.append((f"{name}-3cpu", 3, L, 1, ref, 3, [0, top // 3, 2 * top // 3 + 5, top], "hilbert"))
    outs.append(("3d-a-planar", 3, 3, 1, t3a, 2, [0, 2048, 4096], "planar"))
    # levelmin > 1: the pre-selection may use finer search cubes and really prunes
    lvl1 = [(1, c) for c in itertools.product(range(2), repeat=3)]
    lvl2 = [(2, c) for c in itertools.product(range(4), repeat=3)]
    lm2 = lvl1 + [(2, (0, 0, 0)), (2, (3, 1, 2)), (2, (1, 3, 3))]
    for c in ([300, 512, 1100, 2048, 2049, 3500] if thorough else [512, 1100, 2049]):
        outs.append((f"3d-lm2-2cpu-{c}", 3, 3, 2, lm2, 2, [0, c, 4096], "hilbert"))
    outs.append(("3d-lm2-3cpu", 3, 3, 2, lm2, 3, [0, 900, 2500, 4096], "hilbert"))
    outs.append(("3d-lm3-3cpu", 3, 3, 3, lvl1 + lvl2, 3, [0, 520, 3000, 4096], "hilbert"))
    if thorough:
        outs.append(("3d-lm3-2cpu", 3, 3, 3, lvl1 + lvl2, 2, [0, 1500, 4096], "hilbert"))
        # the same run load-balanced differently (cross-run block: the pre-selection really prunes on these)
        outs.append(("3d-lm3-3cpu-b", 3, 3, 3, lvl1 + lvl2, 3, [0, 900, 2500, 4096], "hilbert"))
        outs.append(("3d-lm3-3cpu-c", 3, 3, 3, lvl1 + lvl2, 3, [0, 1800, 3300, 4096], "hilbert"))
    # 2-D and 1-D outputs with RAMSES' hilbert2d / hilbert1d ownership
    t2 = [(1, (0, 0)), (1, (1, 1)), (2, (1, 1))]
    top2 = (2**4) ** 2
    for c in (top2 // 4, top2 // 2 + 3, 3 * top2 // 4):
        outs.append((f"2d-2cpu-{c}", 2, 3, 1, t2, 2, [0, c, top2], "hilbert"))
    outs.append(("2d-3cpu", 2, 3, 1, t2, 3, [0, 70, 150, top2], "hilbert"))
    # 2-D / 1-D outputs with levelmin = 3 and several domains: a pre-selection that prunes in fewer than 3 dimensions
    # must use the 2-D / 1-D curve
    f2 = [(1, c) for c in itertools.product(range(2), repeat=2)] + [(2, c) for c in itertools.product(range(4), repeat=2)]
    outs.append(("2d-lm3-3cpu", 2, 3, 3, f2, 3, [0, 70, 150, top2], "hilbert"))
    outs.append(("2d-lm3-5cpu", 2, 3, 3, f2, 5, [0, 40, 99, 160, 201, top2], "hilbert"))
    outs.append(("2d-lm3-L4-7cpu", 2, 4, 3, f2 + [(3, (2, 5)), (3, (6, 1)), (3, (7, 7))], 7, [0, 140, 300, 420, 600, 777, 900, 1024], "hilbert"))
    f1 = [(1, (0,)), (1, (1,))] + [(2, (c,)) for c in range(4)]
    outs.append(("1d-lm3-4cpu", 1, 3, 3, f1, 4, [0, 3, 8, 13, 16], "hilbert"))
    t1 = [(1, (0,)), (1, (1,)), (2, (1,))]
    top1 = 2**4
    for c in (4, 8, 11):
        outs.append((f"1d-2cpu-{c}", 1, 3, 1, t1, 2, [0, c, top1], "hilbert"))
    # outputs with many passive scalars, some of whose names begin with the name of another (scalar_1 / scalar_10): a predicate
    # is keyed by the exact name of a variable
    outs.append(("3d-lm2-2cpu-1100-odd", 3, 3, 2, lm2, 2, [0, 1100, 4096], "hilbert"))
    outs.append(("2d-3cpu-odd", 2, 3, 1, t2, 3, [0, 70, 150, top2], "hilbert"))
    return outs


def build_l3(label, thorough=True):
    spec = next(o for o in l3_outputs(True) if o[0] == label)
    _, ndim, L, levelmin, ref, ncpu, bk, ordering = spec
    tree = M1.Tree(ndim, L, ref, levelmin)
    owner = M1.hilbert_owner(tree, bk)
    octs = tree.all_octs()
    ghosts = {k: {o for i, o in enumerate(octs) if owner[o] != k and i % 2 == 0} for k in range(ncpu)}
    return M1.Output(tree, ncpu=ncpu, owner=owner, ghosts=ghosts, bound_key=bk, ordering=ordering, unit_d=2.0, unit_l=3.0, unit_t=5.0,
                     boxlen=2.0, hydro="odd" if label.endswith("-odd") else "rvp")


def l3_predicates(ndim, L, thorough, varnames=()):
    """JSON-able predicate descriptions."""
    n = 2**L
    iv = intervals(n)
    if not thorough:
        iv = [(a, b) for (a, b) in iv if (b - a + 1) in (1, 2, n) or a == 0 or b == n - 1]
    preds = [{"kind": "none"}]
    axes = "xyz"[:ndim]
    # single-axis intervals
    for ax in axes:
        for (a, b) in iv:
            if (a, b) != (0, n - 1):
                preds.append({"kind": "box", "box": {ax: [a, b]}})
    # cubic-ish boxes on all axes: every corner position of boxes of width 1, 2, n/2
    for w in (1, 2, n // 2):
        starts = range(0, n - w + 1, 1 if (thorough or w > 1) else 1)
        for st in itertools.product(starts, repeat=ndim):
            if not thorough and w == 1 and sum(st) % 2 == 1:
                continue
            preds.append({"kind": "box", "box": {ax: [s, s + w - 1] for ax, s in zip(axes, st)}})
    # value predicate alone and ANDed with a box
    preds.append({"kind": "value", "q": 0.5})
    preds.append({"kind": "value", "q": 0.9})
    preds.append({"kind": "box+value", "box": {axes[0]: [0, n // 2 - 1]}, "q": 0.5})
    preds.append({"kind": "box+value", "box": {ax: [n // 2, n - 1] for ax in axes}, "q": 0.3})
    # predicates given as other kinds of callables than a lambda
    for form in ("partial", "callable-object", "bound-method", "def"):
        preds.append({"kind": "box", "box": {ax: [0, 0] for ax in axes}, "form": form})
        preds.append({"kind": "box+value", "box": {axes[0]: [n // 2, n - 1]}, "q": 0.5, "form": form})
        preds.append({"kind": "value", "q": 0.7, "form": form})
    # value predicates on every other stored variable, alone, with a box, and two at a time
    for i, v in enumerate(varnames):
        preds.append({"kind": "value", "q": 0.5, "var": v})
        preds.append({"kind": "value", "q": 0.5, "var": v, "op": "le"})
        preds.append({"kind": "box+value", "box": {axes[i % ndim]: [0, n // 2]}, "q": 0.4, "var": v})
        preds.append({"kind": "value", "q": 0.3, "var": v, "q2": 0.6, "var2": varnames[(i + 1) % len(varnames)]})
    return preds


def l3_select(pred, out, full_density_sorted):
    import osyris

    cm = osyris.units("cm")
    L = out.tree.levelmax
    n = 2**L
    box = out.boxlen * out.unit_l
    sel = {}
    for ax, (a, b) in pred.get("box", {}).items():
        lo = (a + 0.25) / n * box
        hi = (b + 0.75) / n * box
        sel["position_" + ax] = (lambda lo, hi: (lambda x: (x > lo * cm) & (x < hi * cm)))(lo, hi)
    thr = None
    if "q" in pred and "var" in pred:
        # thresholds of the named variables are quantiles of their own values in the full load (passed as a dict of sorted lists)
        def at_least(t):
            if pred.get("op") == "le":
                return lambda d: d <= osyris.Array(t, unit=d.unit)
            return lambda d: d >= osyris.Array(t, unit=d.unit)

        thr = {}
        for vk, qk in (("var", "q"), ("var2", "q2")):
            if vk in pred:
                vals = full_density_sorted[pred[vk]]
                thr[pred[vk]] = vals[min(len(vals) - 1, int(pred[qk] * len(vals)))]
                sel[pred[vk]] = at_least(thr[pred[vk]])
    elif "q" in pred:
        dens = full_density_sorted["density"] if isinstance(full_density_sorted, dict) else full_density_sorted
        thr = dens[min(len(dens) - 1, int(pred["q"] * len(dens)))]
        sel["density"] = lambda d: d >= thr * osyris.units("g/cm**3")
    # the same predicates as other kinds of callables
    form = pred.get("form", "lambda")
    if form != "lambda":
        sel = {k: as_callable(f, form) for k, f in sel.items()}
    return sel, thr


class _Pred:
    def __init__(self, f):
        self.f = f

    def __call__(self, x):
        return self.f(x)

    def test(self, x):
        return self.f(x)


def _apply(f, x):
    return f(x)


def as_callable(f, form):
    import functools

    if form == "partial":
        return functools.partial(_apply, f)
    if form == "callable-object":
        return _Pred(f)
    if form == "bound-method":
        return _Pred(f).test
    if form == "def":
        def named(x):
            return f(x)

        return named
    raise KeyError(form)


def _cm_per(unit_label):
    """centimetres in one unit of the label a snapshot carries (the positions may be written in another length unit)"""
    from ..models import units as M2

    info = M2.info_of_string(str(unit_label))
    return 1.0 if info is None else info[0]


def l3_filter(full_mesh, pred, out, thr):
    """indices of rows of the full load (snapshot form) that satisfy the predicate (my own evaluation)."""
    L = out.tree.levelmax
    n = 2**L
    box = out.boxlen * out.unit_l
    ndim = out.ndim
    nrows = len(full_mesh["level"][2])
    keep = np.ones(nrows, dtype=bool)
    for ax, (a, b) in pred.get("box", {}).items():
        lo = (a + 0.25) / n * box
        hi = (b + 0.75) / n * box
        if ndim == 1:
            x = np.asarray(full_mesh["position_x"][2]) * _cm_per(full_mesh["position_x"][1])
        else:
            x = np.asarray(full_mesh["position"][1][ax][1]) * _cm_per(full_mesh["position"][1][ax][0])
        keep &= (x > lo) & (x < hi)
    if isinstance(thr, dict):
        for v, t in thr.items():
            keep &= (np.asarray(full_mesh[v][2]) <= t) if pred.get("op") == "le" else (np.asarray(full_mesh[v][2]) >= t)
    elif thr is not None:
        keep &= np.asarray(full_mesh["density"][2]) >= thr
    return keep


def rows_of(mesh_snap, keep=None):
    """snapshot group -> sorted list of row tuples over every column"""
    cols = []
    for k in sorted(mesh_snap):
        e = mesh_snap[k]
        if e[0] == "A":
            cols.append(np.atleast_1d(np.asarray(e[2], dtype=float)))
        else:
            for c in sorted(e[1]):
                cols.append(np.atleast_1d(np.asarray(e[1][c][1], dtype=float)))
    if not cols:
        return np.zeros((0, 0))
    M = np.stack(cols, axis=1)
    if keep is not None:
        M = M[keep]
    if len(M):
        M = M[np.lexsort(M.T[::-1])]
    return M


def layer3(payload):
    acc = Acc()
    thorough = payload["tier"] == "thorough"
    outs = [o[0] for o in l3_outputs(thorough)]
    for oi, label in enumerate(outs):
        if oi % payload["nshards"] != payload["shard"]:
            continue
        out = build_l3(label)
        with _load.Scratch() as d:
            out.write(d)
            ds, _ = _load.load(d, out.nout)
            full = C13.snapshot(ds)["mesh"]
            varnames = [v for v, _ in out.hydro if v != "density"] if label.endswith("-odd") else []
            dens = {v: sorted(full[v][2]) for v in ["density"] + varnames}
            for pi, pred in enumerate(l3_predicates(out.ndim, out.tree.levelmax, thorough, varnames)):
                problems, info = l3_case(out, d, full, dens, pred)
                acc.case(nontrivial=info.get("files", out.ncpu) < out.ncpu or 0 < info.get("rows", 0) < len(dens["density"]),
                         outcome="pruned" if info.get("files", out.ncpu) < out.ncpu else "all-files")
                for sig, det in problems:
                    acc.violation("C04:" + sig, (1000 + oi, pi), {"layer": 3, "output": label, "pred": pred}, det)
                if pi % 211 == 0:
                    acc.sample({"layer": 3, "output": label, "pred": pred, "files_opened": info.get("files"), "rows": info.get("rows")})
            # explicit cpu_list subsets
            for r in range(1, out.ncpu + 1):
                for sub in itertools.combinations(range(1, out.ncpu + 1), r):
                    problems, info = l3_cpu_case(out, d, full, list(sub))
                    acc.case(nontrivial=len(sub) < out.ncpu, outcome="cpu_list")
                    for sig, det in problems:
                        acc.violation("C04:" + sig, (1000 + oi, 9000 + sum(sub)), {"layer": 3, "output": label, "cpu_list": list(sub)}, det)
    return acc


def l3_case(out, d, full, dens, pred):
    sel, thr = l3_select(pred, out, dens)
    keep = l3_filter(full, pred, out, thr)
    exp = rows_of(full, keep)
    try:
        ds, text = _load.load(d, out.nout, select={"mesh": sel} if sel else None)
    except Exception as e:
        import traceback

        if len(exp) == 0:
            return [], {"rows": 0}
        return [("select-load-raised:" + type(e).__name__, {"trace": traceback.format_exc()[-500:]})], {"rows": len(exp)}
    files = _load.processed_files(text)
    info = {"files": files, "rows": len(exp)}
    problems = []
    got_snap = C13.snapshot(ds).get("mesh", {})
    got = rows_of(got_snap)
    if out.ordering != "hilbert" and files != out.ncpu:
        problems.append(("non-hilbert-ordering-pruned-files", {"files": files}))
    if len(exp) == 0 and len(got) == 0:
        return problems, info
    if set(got_snap) != set(full) and len(got):
        problems.append(("selected-load-columns-differ", {"got": sorted(got_snap), "full": sorted(full)}))
    elif got.shape != exp.shape or not np.array_equal(got, exp):
        ndim = out.ndim
        kind = "rows-missing" if len(got) < len(exp) else ("rows-extra" if len(got) > len(exp) else "rows-differ")
        dim = f"{ndim}d"
        problems.append((f"selected-load-{kind}:{dim}:files-opened-{'subset' if files < out.ncpu else 'all'}",
                         {"expected_rows": int(len(exp)), "got_rows": int(len(got)), "files_opened": files, "ncpu": out.ncpu}))
    return problems, info


def l3_cpu_case(out, d, full, sub):
    try:
        ds, text = _load.load(d, out.nout, cpu_list=sub)
    except Exception as e:
        return [("cpu-list-load-raised:" + type(e).__name__, {})], {}
    cpu = np.asarray(full["cpu"][2])
    keep = np.isin(cpu, sub)
    exp = rows_of(full, keep)
    got = rows_of(C13.snapshot(ds).get("mesh", {}))
    if len(exp) == 0 and len(got) == 0:
        return [], {}
    if got.shape != exp.shape or not np.array_equal(got, exp):
        return [("cpu-list-rows-differ", {"cpu_list": sub, "expected_rows": int(len(exp)), "got_rows": int(len(got))})], {}
    return [], {}


# cross-run block: several runs (same output number and cpu count, different load balancing) visited in one process, addressed by
# absolute path or by the default relative path after a chdir: nothing learnt from one run may be applied to another

CROSS_GROUPS = [["3d-lm2-2cpu-512", "3d-lm2-2cpu-1100", "3d-lm2-2cpu-2049"], ["2d-2cpu-64", "2d-2cpu-131", "2d-2cpu-192"],
                ["3d-lm3-3cpu", "3d-lm3-3cpu-b", "3d-lm3-3cpu-c"]]
CROSS_MODES = ["absolute-paths", "relative-path-after-chdir"]


def cross_preds(ndim, L):
    n = 2**L
    axes = "xyz"[:ndim]
    return [{"kind": "box", "box": {ax: [0, 0] for ax in axes}}, {"kind": "box", "box": {ax: [n // 2, n // 2 + 1] for ax in axes}},
            {"kind": "box", "box": {ax: [n - 2, n - 1] for ax in axes}}, {"kind": "box+value", "box": {axes[0]: [0, n // 2 - 1]}, "q": 0.5}]


def cross_case(labels, mode, order, pred_i):
    """-> problems. Loads the runs `labels[i] for i in order` one after the other in this process."""
    import osyris

    outs = {lab: build_l3(lab) for lab in labels}
    problems = []
    cwd0 = os.getcwd()
    with _load.Scratch() as root:
        dirs = {}
        for lab, out in outs.items():
            dirs[lab] = os.path.join(root, lab)
            os.makedirs(dirs[lab])
            out.write(dirs[lab])
        try:
            # expectations first, from processes' point of view unrelated full loads by absolute path
            fulls = {}
            for lab, out in outs.items():
                ds, _ = _load.load(dirs[lab], out.nout)
                fulls[lab] = C13.snapshot(ds)["mesh"]
            for step, i in enumerate(order):
                lab = labels[i]
                out = outs[lab]
                full = fulls[lab]
                dens = sorted(full["density"][2])
                pred = cross_preds(out.ndim, out.tree.levelmax)[pred_i]
                sel, thr = l3_select(pred, out, dens)
                exp = rows_of(full, l3_filter(full, pred, out, thr))
                if mode == "relative-path-after-chdir":
                    os.chdir(dirs[lab])
                    ds, text = _load.load("", out.nout, select={"mesh": sel})
                else:
                    ds, text = _load.load(dirs[lab], out.nout, select={"mesh": sel})
                got = rows_of(C13.snapshot(ds).get("mesh", {}))
                if (len(exp) or len(got)) and (got.shape != exp.shape or not np.array_equal(got, exp)):
                    problems.append((f"selected-load-differs-after-visiting-another-run:{mode}",
                                     {"step": step, "run": lab, "expected_rows": int(len(exp)), "got_rows": int(len(got)), "files_opened": _load.processed_files(text)}))
                    break
        finally:
            os.chdir(cwd0)
    return problems


MOVING_LABELS = ["3d-lm3-3cpu", "2d-lm3-L4-7cpu"]


class _Region:
    """A selection region whose predicates stay the same callable objects while the region moves."""

    def __init__(self, axes):
        self.lim = {ax: (0.0, 0.0) for ax in axes}

    def _inside(self, ax, x):
        import osyris

        cm = osyris.units("cm")
        lo, hi = self.lim[ax]
        return (x > lo * cm) & (x < hi * cm)

    def in_x(self, x):
        return self._inside("x", x)

    def in_y(self, x):
        return self._inside("y", x)

    def in_z(self, x):
        return self._inside("z", x)


def moving_case(label, pred_order, carrier):
    """One run loaded several times in this process through the SAME predicate objects, the region they describe being moved in
    between (bound methods of one region object, or functions reading a variable of their closure): each load selects the region
    as it is at that moment."""
    out = build_l3(label)
    problems = []
    n = 2 ** out.tree.levelmax
    box = out.boxlen * out.unit_l
    axes = "xyz"[: out.ndim]
    region = _Region(axes)
    if carrier == "bound-methods":
        sel = {"position_" + ax: getattr(region, "in_" + ax) for ax in axes}
    else:
        def make(ax):
            return lambda x: region._inside(ax, x)

        sel = {"position_" + ax: make(ax) for ax in axes}
    with _load.Scratch() as d:
        out.write(d)
        ds, _ = _load.load(d, out.nout)
        full = C13.snapshot(ds)["mesh"]
        for step, pi in enumerate(pred_order):
            pred = cross_preds(out.ndim, out.tree.levelmax)[pi]
            for ax, (a, b) in pred["box"].items():
                region.lim[ax] = ((a + 0.25) / n * box, (b + 0.75) / n * box)
            exp = rows_of(full, l3_filter(full, pred, out, None))
            ds, text = _load.load(d, out.nout, select={"mesh": dict(sel)})
            got = rows_of(C13.snapshot(ds).get("mesh", {}))
            if (len(exp) or len(got)) and (got.shape != exp.shape or not np.array_equal(got, exp)):
                problems.append((f"selected-load-differs-after-the-region-was-moved:{carrier}",
                                 {"step": step, "expected_rows": int(len(exp)), "got_rows": int(len(got)), "files_opened": _load.processed_files(text)}))
                break
    return problems


def cross_items(thorough):
    # (outputs whose pre-selection opens 1, 2 and 3 of 3 files for the three corner regions)
    for gi, label in enumerate(MOVING_LABELS):
        for carrier in ("bound-methods", "closure"):
            for order in ([0, 1], [1, 0], [0, 2], [2, 0, 1], [1, 1, 2], [2, 1, 0]):
                yield {"layer": "cross", "group": gi, "mode": "one-run-region-moved", "carrier": carrier, "order": order, "label": label}
    for gi, labels in enumerate(CROSS_GROUPS):
        for mode in CROSS_MODES:
            for order in ([0, 1], [1, 0], [0, 1, 2], [2, 0, 1], [1, 1, 0]):
                for pred_i in range(4):
                    if not thorough and pred_i == 3 and len(order) == 3:
                        continue
                    yield {"layer": "cross", "group": gi, "mode": mode, "order": order, "pred": pred_i}


def cross_work(payload):
    acc = Acc()
    for idx, c in my_share(cross_items(payload["tier"] == "thorough"), payload):
        if c["mode"] == "one-run-region-moved":
            problems = moving_case(c["label"], c["order"], c["carrier"])
        else:
            problems = cross_case(CROSS_GROUPS[c["group"]], c["mode"], c["order"], c["pred"])
        acc.case(nontrivial=True, outcome="ok" if not problems else "violation")
        for sig, det in problems:
            acc.violation("C04:" + sig, (3000, idx), c, det)
    return acc


def env_work(payload):
    """Layer 3 (box predicates) on outputs where the pre-selection prunes, inside an interpreter whose user configuration writes the mesh
    coordinates (position, dx) in another length unit than the one-letter entries x, y, z."""
    acc = Acc()
    for oi, label in enumerate(("3d-lm3-3cpu", "3d-lm2-3cpu", "2d-lm3-5cpu")):
        out = build_l3(label)
        with _load.Scratch() as d:
            out.write(d)
            ds, _ = _load.load(d, out.nout)
            full = C13.snapshot(ds)["mesh"]
            dens = {"density": sorted(full["density"][2])}
            for pi, pred in enumerate(l3_predicates(out.ndim, out.tree.levelmax, False)):
                if pred["kind"] != "box" or "form" in pred or pi % 3:
                    continue
                problems, info = l3_case(out, d, full, dens, pred)
                acc.case(nontrivial=True, outcome="ok" if not problems else "violation")
                for sig, det in problems:
                    acc.violation("C04:" + sig, (2000 + oi, pi), {"layer": 3, "output": label, "pred": pred}, det)
    return acc


def environment_replay(payload):
    return replay_layer3(payload["case"])


def replay_layer3(case):
    out = build_l3(case["output"])
    with _load.Scratch() as d:
        out.write(d)
        ds, _ = _load.load(d, out.nout)
        full = C13.snapshot(ds)["mesh"]
        dens = {v: sorted(full[v][2]) for v in full if full[v][0] == "A"}
        if "cpu_list" in case:
            problems, _ = l3_cpu_case(out, d, full, case["cpu_list"])
        else:
            problems, _ = l3_case(out, d, full, dens, case["pred"])
    return ["C04:" + s for s, _ in problems]


# ------------------------------------------------------------------ driver


def run(ctx):
    from ..runner import EnvironmentRuns

    envruns = EnvironmentRuns(MOD, "env_work", ctx.base(), ("user-positions-in-au",))
    a1 = Acc.merged(ctx.pool.shards(MOD, "layer1", ctx.base()))
    for sig, det in layer1_global(ctx.thorough):
        if sig.startswith("harness"):
            a1.error(sig + str(det))
        else:
            a1.violation(sig, (0, 0), {"layer": 1, "global": True}, det)
    a2 = Acc.merged(ctx.pool.shards(MOD, "layer2", ctx.base(), nshards=ctx.pool.n * 2) + ctx.pool.shards(MOD, "layer2_sliver", ctx.base()))
    n3 = len(l3_outputs(ctx.thorough))
    a3 = Acc.merged(ctx.pool.shards(MOD, "layer3", ctx.base(), nshards=n3))
    a4 = Acc.merged(ctx.pool.shards(MOD, "cross_work", ctx.base()))
    acc = Acc.merged([a1, a2, a3, a4] + envruns.results())
    cov = {
        "cross_run_histories": a4.evaluations,
        "evaluations": acc.evaluations,
        "distinct_nontrivial": acc.nontrivial,
        "rule": "layer 1: every cell of the 2^b grids; layer 2: (box, bound_key sequence, levelmin, lmax) tuples, every dyadic box at "
        "L=2 (all 1000) and L=3 (all 46656 thorough, 1331-box sub-product quick) x cut lattice (every cut at L=2 thorough) for 2 cpus and "
        "pairs of cuts for 3 cpus; layer 3: outputs x predicates. non-trivial = the returned cpu list / files opened is a strict "
        "subset, or the predicate keeps some but not all rows",
        "samples": (a2.samples[:2] + a3.samples[:2]) or a1.samples,
        "exhaustive": True,
        "layer1_keys_checked": a1.evaluations,
        "layer2_cpu_lists_checked": a2.evaluations,
        "layer2_pruned_lists": a2.outcomes.get("pruned", 0),
        "layer3_selective_loads": a3.evaluations,
        "layer3_loads_that_opened_fewer_files": a3.outcomes.get("pruned", 0),
        "layer3_outputs": n3,
    }
    return {"level": LEVEL, "coverage": cov, "violations": acc.violation_list(), "errors": acc.errors,
            "assumptions": [
                "ownership of an oct = cpu whose key interval contains the Hilbert key (resolution 2^(levelmax+1)) of its father cell's "
                "centre, using the frozen 3-D table and RAMSES' hilbert2d/hilbert1d in 2-D/1-D (validated structurally)",
                "boxes are open intervals (i0+0.25, i1+0.75)/2^L so that no cell centre lies on a box face",
                "layer 3 is differential against the full load of the same output (anchored by C01)",
            ]}


def replay_sigs(case):
    if case.get("environment"):
        from ..runner import replay_in_environment

        return replay_in_environment(MOD, case)
    if case.get("layer") == "cross" and case.get("mode") == "one-run-region-moved":
        return ["C04:" + s for s, _ in moving_case(case["label"], case["order"], case["carrier"])]
    if case.get("layer") == "cross":
        return ["C04:" + s for s, _ in cross_case(CROSS_GROUPS[case["group"]], case["mode"], case["order"], case["pred"])]
    if case.get("layer") == 1:
        from osyris.io import hilbert as impl

        if case.get("global"):
            return [s for s, _ in layer1_global(False)]
        b, (x, y, z) = case["b"], case["cell"]
        out = []
        k = int(impl._hilbert3d(x, y, z, b))
        if k != H.hilbert3d(x, y, z, b):
            out.append("C04:hilbert-key-differs-from-frozen-table")
        if b > 1 and k // 8 != int(impl._hilbert3d(x // 2, y // 2, z // 2, b - 1)):
            out.append("C04:hilbert-prefix-property")
        return out
    if case.get("layer") == 2:
        return replay_layer2(case)
    return replay_layer3(case)

"""C09 — Vector operations are the component-wise lifting of Array operations.

E1 (differential against the component Arrays, whose semantics C02/C07/C10 pin down) + M2 for
norm/dot/cross: nvec in {1,2,3} x operator (8 arithmetic, 6 comparison, 4 logical, 4 in-place, numpy
unary/binary/sequence/reduction) x right-operand kind x shapes x dtypes x unit pairs; dot/cross over a
lattice of small integer vectors in mixed units, with the algebraic laws evaluated in CGS.
"""
import itertools
import operator

import numpy as np

from ..models import units as M2
from ..runner import Acc, my_share
from . import _arr

LEVEL = "exploration"
MOD = "mc.props.C09"

ARITH = {"add": operator.add, "sub": operator.sub, "mul": operator.mul, "truediv": operator.truediv}
CMPS = {"lt": operator.lt, "le": operator.le, "gt": operator.gt, "ge": operator.ge, "eq": operator.eq, "ne": operator.ne}
INPLACE = {"iadd": operator.iadd, "isub": operator.isub, "imul": operator.imul, "itruediv": operator.itruediv}
RHS_KINDS = ["Vector", "Vector_other_nvec", "Vector_other_nvec_b", "Array", "int", "float", "ndarray", "Quantity"]
UNIT_PAIRS = [("m", "m"), ("m", "cm"), ("cm", "km"), ("m", "s"), ("dimensionless", "dimensionless"), ("g", "M_sun"),
              # pure numbers with a scale: a bare number next to them is a pure number (1 = 100 percent)
              ("percent", "dimensionless"), ("cm/m", "percent")]


def cases(thorough):
    dts = ["f8", "f4", "i8"] if thorough else ["f8", "f4"]
    shapes = ["3", "0d", "2x3"] if thorough else ["3", "0d"]
    for nvec in (1, 2, 3):
        for opname in list(ARITH) + list(CMPS) + list(INPLACE):
            for kind in RHS_KINDS:
                for (u1, u2) in UNIT_PAIRS:
                    for dt in dts:
                        for sh in shapes:
                            yield {"block": "binary", "nvec": nvec, "op": opname, "kind": kind, "u1": u1, "u2": u2, "dt": dt, "shape": sh}
        for opname in ("neg", "pow2", "pow0.5", "pow-1", "rmul", "rtruediv", "radd", "rsub", "np.sqrt", "np.abs", "np.negative", "np.sum",
                       "np.add", "np.multiply", "np.concatenate", "np.isfinite", "reshape", "getitem_slice", "getitem_mask", "copy",
                       # the same object in two roles
                       "alias:concatenate_vv", "alias:concatenate_vwv", "alias:stack_vv", "alias:hstack_wvwv", "alias:add_vv", "alias:mul_vv", "alias:sub_vv",
                       "alias:truediv_vv", "alias:np.add_vv", "alias:lt_vv", "alias:vstack_vv",
                       # an Array on the left of a Vector: plain and augmented operators (the result is the Vector of component results)
                       "Aleft:add", "Aleft:sub", "Aleft:mul", "Aleft:truediv", "Aleft:iadd", "Aleft:isub", "Aleft:imul", "Aleft:itruediv", "Aleft:lt"):
            for (u1, u2) in UNIT_PAIRS:
                for dt in dts:
                    for sh in (["3", "2x3"] if (opname in ("np.concatenate", "getitem_slice", "getitem_mask", "reshape") or opname.startswith(("alias:", "Aleft:"))) else shapes):
                        yield {"block": "other", "nvec": nvec, "op": opname, "u1": u1, "u2": u2, "dt": dt, "shape": sh}
        for opname in ("and", "or", "xor", "invert"):
            for kind in ("Vector", "Array", "bool"):
                yield {"block": "logical", "nvec": nvec, "op": opname, "kind": kind}
        for (u1, _) in UNIT_PAIRS:
            for dt in dts:
                for sh in sorted(set(shapes) | {"2x3", "2x1", "1x3"}):
                    yield {"block": "norm", "nvec": nvec, "u1": u1, "dt": dt, "shape": sh}
    # the same operations on Vectors whose second and third components were attached after construction
    for nvec in (2, 3):
        for opname in list(ARITH)[:4] + list(CMPS)[:2]:
            for kind in RHS_KINDS:
                yield {"block": "binary", "nvec": nvec, "op": opname, "kind": kind, "u1": "m", "u2": "cm", "dt": "f8", "shape": "3", "construct": "late"}
        for opname in ("neg", "pow2", "rmul", "np.sqrt", "np.add", "np.concatenate", "getitem_slice", "copy", "alias:add_vv"):
            yield {"block": "other", "nvec": nvec, "op": opname, "u1": "m", "u2": "cm", "dt": "f8", "shape": "3", "construct": "late"}
        yield {"block": "norm", "nvec": nvec, "u1": "m", "dt": "f8", "shape": "3", "construct": "late"}
    for opname in list(ARITH)[:4] + list(CMPS)[:2]:
        for kind in RHS_KINDS:
            yield {"block": "binary", "nvec": 3, "op": opname, "kind": kind, "u1": "m", "u2": "cm", "dt": "f8", "shape": "3", "construct": "late-z-first"}
    for opname in ("neg", "pow2", "rmul", "np.sqrt", "np.add", "np.concatenate", "getitem_slice", "copy", "alias:add_vv"):
        yield {"block": "other", "nvec": 3, "op": opname, "u1": "m", "u2": "cm", "dt": "f8", "shape": "3", "construct": "late-z-first"}
    yield {"block": "norm", "nvec": 3, "u1": "m", "dt": "f8", "shape": "3", "construct": "late-z-first"}
    lat = [-1, 0, 2]
    vecs = [v for v in itertools.product(lat, repeat=3)]
    upairs = [("m", "m"), ("m", "cm"), ("cm", "km"), ("g", "M_sun"), ("m", "s")]
    for (u1, u2) in upairs:
        for a in vecs[:: (1 if thorough else 2)]:
            for b in vecs[:: (1 if thorough else 3)]:
                yield {"block": "products", "a": list(a), "b": list(b), "u1": u1, "u2": u2}
    # ... with the first operand assembled one component at a time, in and out of the order x, y, z
    for (u1, u2) in upairs[:2]:
        for a in vecs[::4]:
            for b in vecs[::5]:
                for construct in ("late", "late-z-first", "late-replaced"):
                    yield {"block": "products", "a": list(a), "b": list(b), "u1": u1, "u2": u2, "construct": construct}
    for nv in (1, 2):
        yield {"block": "products_lowdim", "nvec": nv, "u1": "m", "u2": "cm"}


_LATE = False  # build Vectors with one component and attach the others afterwards (v.y = ..., v.z = ...)


def make_vec(nvec, shape, dt, unit, which):
    import osyris

    comps = [_arr.values_for(shape, dt, 0, which) + dt(i * 10) for i in range(nvec)]
    if _LATE and nvec > 1:
        v = osyris.Vector(comps[0].copy(), unit=unit)
        if nvec > 2 and _LATE == "z-first":
            v.z = osyris.Array(comps[2].copy(), unit=unit)
            v.y = osyris.Array(comps[1].copy(), unit=unit)
            return v, comps
        v.y = osyris.Array(comps[1].copy(), unit=unit)
        if nvec > 2:
            v.z = osyris.Array(comps[2].copy(), unit=unit)
        return v, comps
    return osyris.Vector(*[c.copy() for c in comps], unit=unit), comps


def comp_arrays(comps, unit):
    import osyris

    return [osyris.Array(c.copy(), unit=unit) for c in comps]


def same(x, y):
    """exact equality of two Arrays (values, dtype, shape, unit)"""
    return (np.asarray(x._array).dtype == np.asarray(y._array).dtype and np.asarray(x._array).shape == np.asarray(y._array).shape
            and np.array_equal(np.asarray(x._array), np.asarray(y._array), equal_nan=True) and x.unit == y.unit)


def outcome(f):
    try:
        with np.errstate(all="ignore"):
            return ("value", f())
    except Exception as e:
        return ("raises", type(e).__name__)


def compare_lifted(acc, idx, c, label, vec_result, comp_results, must_raise=False):
    import osyris

    kinds = {r[0] for r in comp_results}
    if must_raise:
        if vec_result[0] != "raises":
            acc.violation(f"C09:component-count-mismatch-accepted:{label}", idx, c, {})
            return "no-raise"
        return "raises"
    if vec_result[0] == "raises":
        if kinds == {"raises"}:
            return "raises"
        acc.violation(f"C09:vector-raises-but-components-do-not:{label}:{vec_result[1]}", idx, c, {})
        return "mismatch"
    if "raises" in kinds:
        acc.violation(f"C09:components-raise-but-vector-does-not:{label}", idx, c, {"component": [r[1] for r in comp_results if r[0] == "raises"][0]})
        return "mismatch"
    v = vec_result[1]
    if not isinstance(v, osyris.Vector):
        acc.violation(f"C09:result-not-a-Vector:{label}", idx, c, {"type": type(v).__name__})
        return "bad-type"
    got = list(v._xyz.values())
    if len(got) != len(comp_results):
        acc.violation(f"C09:result-component-count:{label}", idx, c, {"got": len(got)})
        return "bad"
    for i, (g, (_, w)) in enumerate(zip(got, comp_results)):
        if label.startswith("Aleft:"):
            # Array op Vector is answered by the Vector's reflected operator: the unit the result is written in may be the Vector's;
            # the physical quantity must be the component result
            try:
                pg, dg_, tg = _arr.phys(g)
                pw, dw_, tw = _arr.phys(w)
                ok = tuple(dg_) == tuple(dw_) and np.shape(pg) == np.shape(pw) and _arr.close(pg, pw, (2e-6 if c.get("dt") == "f4" else 1e-12) + tg + tw)
            except Exception:
                ok = False
        else:
            ok = same(g, w)
        if not ok:
            acc.violation(f"C09:component-differs-from-Array-operation:{label}", idx, c,
                          {"component": "xyz"[i], "got": [np.asarray(g.values).ravel()[:3].tolist(), str(g.unit), str(g.dtype)],
                           "expected": [np.asarray(w.values).ravel()[:3].tolist(), str(w.unit), str(w.dtype)]})
            return "differs"
    return "ok"


def run_case(acc, idx, c):
    global _LATE
    _LATE = {"late": True, "late-z-first": "z-first"}.get(c.get("construct"), False)
    try:
        return _run_case(acc, idx, c)
    finally:
        _LATE = False


def _run_case(acc, idx, c):
    import osyris

    A_, V_ = osyris.Array, osyris.Vector
    blk = c["block"]
    if blk == "binary":
        dt = _arr.DTYPES[c["dt"]]
        shape = _arr.SHAPES[c["shape"]]
        nvec = c["nvec"]
        opname = c["op"]
        op = {**ARITH, **CMPS, **INPLACE}[opname]
        kind = c["kind"]

        def operands():
            v, comps = make_vec(nvec, shape, dt, c["u1"], 0)
            if kind == "Vector":
                w, wc = make_vec(nvec, shape, np.float64, c["u2"], 1)
                return v, comps, w, comp_arrays(wc, c["u2"])
            if kind in ("Vector_other_nvec", "Vector_other_nvec_b"):
                # the two other component counts
                n2 = nvec % 3 + 1 if kind == "Vector_other_nvec" else (nvec + 1) % 3 + 1
                w, wc = make_vec(n2, shape, np.float64, c["u2"], 1)
                return v, comps, w, None
            if kind == "Array":
                w = A_(_arr.values_for(shape, np.float64, 0, 1), unit=c["u2"])
            elif kind == "int":
                w = 3
            elif kind == "float":
                w = 2.5
            elif kind == "ndarray":
                w = _arr.values_for(shape, np.float64, 0, 1)
            else:
                w = 2.0 * osyris.units(c["u2"])
            return v, comps, w, [w] * nvec

        v, comps, w, wcomps = operands()
        sw = _arr.snapshot(w)
        label = f"{opname}:{kind}"
        vres = outcome(lambda: op(v, w))
        if kind in ("Vector_other_nvec", "Vector_other_nvec_b"):
            return compare_lifted(acc, idx, c, label, vres, [], must_raise=True), True
        # same operation on fresh component Arrays
        v2, comps2, w2, wcomps2 = operands()
        cres = []
        for a_i, w_i in zip(comp_arrays(comps2, c["u1"]), wcomps2):
            cres.append(outcome(lambda a_i=a_i, w_i=w_i: op(a_i, w_i)))
        out = compare_lifted(acc, idx, c, label, vres, cres)
        if _arr.snapshot(w) != sw:
            acc.violation(f"C09:right-operand-modified:{label}", idx, c, {})
        if opname in INPLACE and vres[0] == "value" and out == "ok":
            # the in-place update must be visible through the original Vector object's components
            for g, (_, wv) in zip(v._xyz.values(), cres):
                if not same(g, wv):
                    acc.violation(f"C09:inplace-not-applied-to-original:{label}", idx, c, {})
                    break
        return out, True
    if blk == "other":
        dt = _arr.DTYPES[c["dt"]]
        shape = _arr.SHAPES[c["shape"]]
        nvec = c["nvec"]
        name = c["op"]
        v, comps = make_vec(nvec, shape, dt, c["u1"], 0)
        arrs = comp_arrays(comps, c["u1"])
        w, wc = make_vec(nvec, shape, np.float64, c["u2"], 1)
        warrs = comp_arrays(wc, c["u2"])
        mask = np.array([True, False, True]) if shape == (3,) else np.array([True, False])
        table = {
            "neg": (lambda: -v, lambda a, b: -a), "pow2": (lambda: v**2, lambda a, b: a**2), "pow0.5": (lambda: v**0.5, lambda a, b: a**0.5),
            "pow-1": (lambda: v ** (-1.0), lambda a, b: a ** (-1.0)),
            "rmul": (lambda: 3 * v, lambda a, b: 3 * a), "rtruediv": (lambda: 3 / v, lambda a, b: 3 / a),
            "radd": (lambda: 3 + v, lambda a, b: a + 3), "rsub": (lambda: 3 - v, lambda a, b: -(a - 3)),
            "np.sqrt": (lambda: np.sqrt(v), lambda a, b: np.sqrt(a)), "np.abs": (lambda: np.abs(v), lambda a, b: np.abs(a)),
            "np.negative": (lambda: np.negative(v), lambda a, b: np.negative(a)), "np.sum": (lambda: np.sum(v), lambda a, b: np.sum(a)),
            "np.isfinite": (lambda: np.isfinite(v), lambda a, b: np.isfinite(a)),
            "np.add": (lambda: np.add(v, w), lambda a, b: np.add(a, b)), "np.multiply": (lambda: np.multiply(v, w), lambda a, b: np.multiply(a, b)),
            "np.concatenate": (lambda: np.concatenate([v, w]), lambda a, b: np.concatenate([a, b])),
            "reshape": (lambda: v.reshape(-1), lambda a, b: a.reshape(-1)),
            "getitem_slice": (lambda: v[1:], lambda a, b: a[1:]), "getitem_mask": (lambda: v[mask], lambda a, b: a[mask]),
            "copy": (lambda: v.copy(), lambda a, b: a.copy()),
            "alias:concatenate_vv": (lambda: np.concatenate([v, v]), lambda a, b: np.concatenate([a, a])),
            "alias:concatenate_vwv": (lambda: np.concatenate([v, w, v]), lambda a, b: np.concatenate([a, b, a])),
            "alias:stack_vv": (lambda: np.stack([v, v]), lambda a, b: np.stack([a, a])),
            "alias:vstack_vv": (lambda: np.vstack([v, v]), lambda a, b: np.vstack([a, a])),
            "alias:hstack_wvwv": (lambda: np.hstack([w, v, w, v]), lambda a, b: np.hstack([b, a, b, a])),
            "alias:add_vv": (lambda: v + v, lambda a, b: a + a), "alias:mul_vv": (lambda: v * v, lambda a, b: a * a),
            "alias:sub_vv": (lambda: v - v, lambda a, b: a - a), "alias:truediv_vv": (lambda: v / v, lambda a, b: a / a),
            "alias:np.add_vv": (lambda: np.add(v, v), lambda a, b: np.add(a, a)), "alias:lt_vv": (lambda: v < v, lambda a, b: a < a),
        }
        if name.startswith("Aleft:"):
            # the left operand: an Array in the Vector's second unit (converted, or refused, exactly as for Array op Array)
            L0 = _arr.values_for(shape, np.float64, 1, 1) + 7.0
            mk = lambda: A_(L0.copy(), unit=c["u2"])  # noqa: E731
            bop = {"add": operator.add, "sub": operator.sub, "mul": operator.mul, "truediv": operator.truediv, "lt": operator.lt,
                   "iadd": operator.iadd, "isub": operator.isub, "imul": operator.imul, "itruediv": operator.itruediv}[name.split(":")[1]]
            table[name] = (lambda: bop(mk(), v), lambda a, b: bop(mk(), a))
        fv, fa = table[name]
        vres = outcome(fv)
        cres = [outcome(lambda a=a, b=b: fa(a, b)) for a, b in zip(arrs, warrs)]
        return compare_lifted(acc, idx, c, name, vres, cres), True
    if blk == "logical":
        nvec = c["nvec"]
        p = [np.array([True, True, False, False]), np.array([True, False, True, False]), np.array([False, True, True, False])][:nvec]
        q = [np.array([True, False, True, False]), np.array([False, False, True, True]), np.array([True, True, True, False])][:nvec]
        v = V_(*[x.copy() for x in p])
        if c["kind"] == "Vector":
            w, ws = V_(*[x.copy() for x in q]), [A_(x.copy()) for x in q]
        elif c["kind"] == "Array":
            w = A_(q[0].copy())
            ws = [w] * nvec
        else:
            w, ws = True, [True] * nvec
        ops = {"and": operator.and_, "or": operator.or_, "xor": operator.xor}
        if c["op"] == "invert":
            vres = outcome(lambda: ~v)
            cres = [outcome(lambda x=x: ~A_(x.copy())) for x in p]
        else:
            f = ops[c["op"]]
            vres = outcome(lambda: f(v, w))
            cres = [outcome(lambda x=x, y=y: f(A_(x.copy()), y)) for x, y in zip(p, ws)]
        return compare_lifted(acc, idx, c, "logical:" + c["op"] + ":" + c["kind"], vres, cres), True
    if blk == "norm":
        dt = _arr.DTYPES[c["dt"]]
        shape = _arr.SHAPES[c["shape"]]
        v, comps = make_vec(c["nvec"], shape, dt, c["u1"], 0)
        sv = _arr.snapshot(v)
        try:
            n = v.norm
        except Exception as e:
            acc.violation(f"C09:norm-raised:{type(e).__name__}", idx, c, {})
            return "raises-unexpected", True
        s, d, t = _arr.uinfo(c["u1"])
        want = np.sqrt(sum(np.asarray(x, dtype=np.float64) ** 2 for x in comps)) * s
        got, gd, gt = _arr.phys(n)
        if tuple(gd) != tuple(d):
            acc.violation("C09:norm-wrong-unit", idx, c, {"unit": str(n.unit)})
            return "wrong-unit", True
        if not _arr.close(got, want, _arr.eps_for(dt) + t + gt):
            acc.violation("C09:norm-wrong-value", idx, c, {"got": np.ravel(got)[:3].tolist(), "expected": np.ravel(want)[:3].tolist()})
            return "wrong-value", True
        if _arr.snapshot(v) != sv:
            acc.violation("C09:norm-modified-vector", idx, c, {})
        return "ok", c["nvec"] > 1
    if blk == "products":
        a, b = np.array(c["a"], dtype=float), np.array(c["b"], dtype=float)
        va = V_(*[np.array([x, 2 * x + 1]) for x in a], unit=c["u1"])
        vb = V_(*[np.array([y, y - 3]) for y in b], unit=c["u2"])
        how = c.get("construct")
        if how:
            ca = [osyris.Array(np.array([x, 2 * x + 1]), unit=c["u1"]) for x in a]
            va = V_(ca[0].values.copy(), unit=c["u1"])
            if how == "late":
                va.y, va.z = ca[1], ca[2]
            elif how == "late-z-first":
                va.z = ca[2]
                va.y = ca[1]
            else:
                # components set, then set again (the first value of y is replaced)
                va.y = ca[2]
                va.z = ca[2]
                va.y = ca[1]
        A3 = np.stack([np.array([x, 2 * x + 1]) for x in a], axis=-1)
        B3 = np.stack([np.array([y, y - 3]) for y in b], axis=-1)
        s1, d1, t1 = _arr.uinfo(c["u1"])
        s2, d2, t2 = _arr.uinfo(c["u2"])
        PA, PB = A3 * s1, B3 * s2
        wd = tuple(p + q for p, q in zip(d1, d2))
        tol = 1e-12 + 2 * (t1 + t2)
        sa, sb = _arr.snapshot(va), _arr.snapshot(vb)
        res = {}
        for name, f in (("dot", lambda: va.dot(vb)), ("dot_rev", lambda: vb.dot(va)), ("cross", lambda: va.cross(vb)), ("cross_rev", lambda: vb.cross(va))):
            res[name] = outcome(f)
            if res[name][0] == "raises":
                acc.violation(f"C09:{name.split('_')[0]}-raised:{res[name][1]}", idx, c, {})
                return "raises-unexpected", True
        if _arr.snapshot(va) != sa or _arr.snapshot(vb) != sb:
            acc.violation("C09:product-modified-operand", idx, c, {})
        want_dot = np.sum(PA * PB, axis=-1)
        want_cross = np.cross(PA, PB)
        for name, want in (("dot", want_dot), ("dot_rev", want_dot)):
            r = res[name][1]
            got, gd, gt = _arr.phys(r)
            if tuple(gd) != tuple(wd):
                acc.violation("C09:dot-wrong-unit", idx, c, {"unit": str(r.unit)})
                return "wrong-unit", True
            if not _arr.close(got, want, tol + gt):
                acc.violation("C09:dot-wrong-physical-value" + (":mixed-units" if c["u1"] != c["u2"] else ""), idx, c,
                              {"got_cgs": np.ravel(got).tolist(), "expected_cgs": np.ravel(want).tolist(), "unit": str(r.unit)})
                return "wrong-value", True
        for name, want in (("cross", want_cross), ("cross_rev", -want_cross)):
            r = res[name][1]
            comps = list(r._xyz.values())
            for i, comp in enumerate(comps):
                got, gd, gt = _arr.phys(comp)
                if tuple(gd) != tuple(wd):
                    acc.violation("C09:cross-wrong-unit", idx, c, {"unit": str(comp.unit)})
                    return "wrong-unit", True
                if not _arr.close(got, want[..., i], tol + gt):
                    acc.violation("C09:cross-wrong-physical-value" + (":mixed-units" if c["u1"] != c["u2"] else ""), idx, c,
                                  {"component": "xyz"[i], "got_cgs": np.ravel(got).tolist(), "expected_cgs": np.ravel(want[..., i]).tolist()})
                    return "wrong-value", True
        # algebraic laws evaluated on the returned objects, in CGS
        cr = res["cross"][1]
        C3 = np.stack([_arr.phys(x)[0] for x in cr._xyz.values()], axis=-1)
        dotv = _arr.phys(res["dot"][1])[0]
        scale = (np.linalg.norm(PA, axis=-1) * np.linalg.norm(PB, axis=-1)) + 1e-300
        if np.any(np.abs(np.sum(PA * C3, axis=-1)) > 1e-9 * scale * (np.linalg.norm(PA, axis=-1) + 1e-300)):
            acc.violation("C09:law-a.(axb)-not-zero", idx, c, {})
        lhs = np.sum(C3 * C3, axis=-1) + dotv**2
        rhs = np.sum(PA * PA, axis=-1) * np.sum(PB * PB, axis=-1)
        if not _arr.close(lhs, rhs, 1e-9 + 4 * tol):
            acc.violation("C09:law-lagrange-identity", idx, c, {"lhs": np.ravel(lhs).tolist(), "rhs": np.ravel(rhs).tolist()})
        return "ok", c["u1"] != c["u2"]
    if blk == "products_lowdim":
        nv = c["nvec"]
        va = V_(*[np.array([1.0 + i, 2.0]) for i in range(nv)], unit=c["u1"])
        vb = V_(*[np.array([3.0, 1.0 - i]) for i in range(nv)], unit=c["u2"])
        r = outcome(lambda: va.dot(vb))
        if r[0] == "value":
            s1, s2 = _arr.uinfo(c["u1"])[0], _arr.uinfo(c["u2"])[0]
            want = sum(np.array([1.0 + i, 2.0]) * s1 * np.array([3.0, 1.0 - i]) * s2 for i in range(nv))
            got, gd, gt = _arr.phys(r[1])
            if not _arr.close(got, want, 1e-12):
                acc.violation("C09:dot-wrong-physical-value:mixed-units", idx, c, {"got_cgs": np.ravel(got).tolist(), "expected_cgs": np.ravel(want).tolist()})
                return "wrong-value", True
        return "ok", True
    raise KeyError(blk)


def work(payload):
    acc = Acc()
    thorough = payload["tier"] == "thorough"
    for idx, c in my_share(cases(thorough), payload):
        out, nontrivial = run_case(acc, idx, c)
        acc.case(nontrivial=nontrivial, outcome=out)
        acc.count("block:" + c["block"])
        if idx % 6007 == 0:
            acc.sample(c)
    return acc


def run(ctx):
    acc = Acc.merged(ctx.pool.shards(MOD, "work", ctx.base()))
    cov = {
        "evaluations": acc.evaluations,
        "distinct_nontrivial": acc.nontrivial,
        "rule": "product enumeration, distinct by construction; lifting cases compare the Vector result with the same operation on "
        "fresh component Arrays bit for bit (or both must raise); non-trivial = more than one component / mixed units for products",
        "samples": acc.samples,
        "exhaustive": True,
        "blocks": dict(acc.counters),
        "outcomes": dict(acc.outcomes),
    }
    return {"level": LEVEL, "coverage": cov, "violations": acc.violation_list(), "errors": acc.errors,
            "assumptions": ["Array semantics are the subject of C02/C07/C10; here the Vector must agree with them component by component",
                            "the unit of dot/cross is checked as a dimension (product of the operand dimensions) with the physical value in CGS"]}


def replay_sigs(case):
    acc = Acc()
    run_case(acc, 0, case)
    return list(acc.violations.keys())

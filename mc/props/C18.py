"""C18 — every accepted map orientation yields an orthonormal, correctly oriented basis.

E1: axis letters and triples in any case; normal Vectors with components from {0, +-1, +-2, +-3, +-1e-8,
+-1e8, +-1e-200, +-1e200, +-denormal}^3 minus 0 (with and without a length unit); VectorBasis built from n
and from (n, u perpendicular to n); 'top'/'side' on configurations of 2-3 cells on integer lattices.
Oracle: |n|=|u|=|v|=1, mutual perpendicularity, n parallel to the requested normal, u x v = n when only
the normal was given; 'top': n parallel to sum m r x v over the cells in the window sphere; 'side': that
vector lies in the image plane.
"""
import contextlib
import io
import itertools

import numpy as np

from ..runner import Acc, my_share

LEVEL = "exploration"
MOD = "mc.props.C18"

DEN = 5e-324 * 3
FMAX = float(np.finfo(np.float64).max)
# ... and the ends of the float64 range: the largest finite number, the first number of the top binade, the smallest
# normal and the smallest subnormal
COMP_VALUES = [0.0, 1.0, -1.0, 2.0, -2.0, 3.0, -3.0, 1e-8, -1e-8, 1e8, -1e8, 1e-200, -1e-200, 1e200, -1e200, DEN, -DEN, 1e-310, -1e-310,
               FMAX, -FMAX, 2.0**1023, float(np.finfo(np.float64).tiny), 5e-324]
TOL = 1e-12
FAR = np.array([2.0**40, -(2.0**39), 2.0**38])


def cases(thorough):
    for d in ["x", "y", "z", "X", "Y", "Z"]:
        yield {"kind": "letter", "dir": d}
    for p in itertools.permutations("xyz"):
        s = "".join(p)
        for v in (s, s.upper(), s.capitalize()):
            yield {"kind": "triple", "dir": v}
    vals = COMP_VALUES
    for unit in (None, "cm", "au"):
        for c in itertools.product(vals, repeat=3):
            if c == (0.0, 0.0, 0.0):
                continue
            if unit == "au" and not thorough:
                continue
            yield {"kind": "normal", "n": list(c), "unit": unit}
    small = [0.0, 1.0, -1.0, 2.0, 1e-8, -1e8, 1e-200, 1e200, FMAX, 5e-324]
    for c in itertools.product(small, repeat=3):
        if c == (0.0, 0.0, 0.0):
            continue
        yield {"kind": "basis_from_n", "n": list(c)}
        yield {"kind": "basis_from_n_u", "n": list(c)}
    for cc in via_map_cases(thorough):
        yield cc
    for cc in scale_cases(thorough):
        yield cc
    # top / side
    lat = list(itertools.product([-1.0, 0.0, 1.0], repeat=3))
    sub = [(1.0, 0.0, 0.0), (0.0, 1.0, 0.0), (0.0, 0.0, 1.0), (1.0, 1.0, 0.0), (-1.0, 0.0, 1.0), (1.0, -1.0, 1.0), (0.0, 0.0, 0.0)]
    for view in ("top", "side"):
        for p1 in (lat if thorough else lat[::2]):
            for p2 in sub[:5]:
                for v1 in sub:
                    for v2 in sub[: (7 if thorough else 4)]:
                        for masses in ((1.0, 1.0), (1.0, 2.0)):
                            for win in ("dx8", "dx4.4-origin", "none", "dx4.4-origin-in-m", "dx-in-m-origin-in-km", "dx4.4-origin-far"):
                                if win == "dx4.4-origin-far" and (masses == (1.0, 2.0) or v2 not in sub[:2]) and not thorough:
                                    continue
                                if win.endswith(("-m", "-km")) and (masses == (1.0, 2.0) or v2 != sub[0]) and not thorough:
                                    continue
                                if not thorough and win == "none" and masses == (1.0, 2.0):
                                    continue
                                # (for the windows whose origin is written in another unit, the third cell lies inside the sphere but more
                                #  than one radius away from the coordinate origin along x)
                                third = [3.0, 0.5, 0.0] if win.endswith(("-m", "-km")) else [2.0, 1.0, 0.0]
                                yield {"kind": view, "pos": [list(p1), list(p2), third], "vel": [list(v1), list(v2), [0.0, 1.0, -1.0]],
                                       "mass": [masses[0], masses[1], 1.0], "window": win}


def scale_cases(thorough):
    """'top' / 'side' on groups of very many cells (integer lattice positions and velocities: every sum is exact in any order)."""
    for view in ("top", "side"):
        for n in (65536, 65537, 100000, 150001) + ((200000, 131072) if thorough else ()):
            for window in ("dx50", "none"):
                yield {"kind": view, "generated": {"n": n}, "window": window}


def generated_cells(n):
    i = np.arange(n, dtype=np.int64)
    pos = np.stack([i % 61 - 30, (i // 61) % 61 - 30, (i // 3721) % 61 - 30], axis=1).astype(float)
    # the cells stored first turn about z, the following ones about x, the last few thousand about y
    vel = np.where((i < 65536)[:, None], np.stack([-pos[:, 1], pos[:, 0], np.zeros(n)], axis=1),
                   np.where((i < n - 3000)[:, None], np.stack([np.zeros(n), -pos[:, 2], pos[:, 1]], axis=1),
                            np.stack([pos[:, 2], np.zeros(n), -pos[:, 0]], axis=1) * 4.0))
    mass = 1.0 + (i % 3 == 0)
    return pos, vel, mass


def via_map_cases(thorough):
    """The basis osyris.map actually uses, recovered through the public API from vector layers of constant fields."""
    for d in ("top", "side", "z", "xzy", ["normal", [1, 2, -1]], ["normal", [0, -1, 1]]):
        for layout in ("one-group", "vector-layers-then-other-group", "other-group-image-last"):
            for win in (1.0, 0.6):
                yield {"kind": "via_map", "dir": d, "layout": layout, "dx": win}
    # windows that are not square, on 4^3 cells at four different distances from the centre: the sphere that decides 'top' and
    # 'side' has the radius (dx + dy) / 4, which falls between two shells of cells
    for d in ("top", "side", "z"):
        for (wx, wy) in ((1.0, 0.6), (0.7, 1.0), (0.6, 1.0), (1.0, 1.3), (1.6, 1.0)):
            yield {"kind": "via_map", "dir": d, "layout": "one-group", "dx": wx, "dy": wy, "grid": 4}


def run_via_map(acc, idx, c):
    import osyris

    V_, A_ = osyris.Vector, osyris.Array
    ng = c.get("grid", 2)
    pts = np.array(list(itertools.product([(i + 0.5) / ng for i in range(ng)], repeat=3)))
    n = len(pts)

    def group(seed):
        g = osyris.Datagroup()
        g["position"] = V_(pts[:, 0].copy(), pts[:, 1].copy(), pts[:, 2].copy(), unit="cm")
        g["dx"] = A_(np.full(n, 1.0 / ng), unit="cm")
        k = np.arange(n, dtype=float) % 8 + np.floor(np.arange(n, dtype=float) / 8.0) * 0.37
        if seed == 0:
            vel = np.stack([1.0 + k, 3.0 - 2.0 * k, 0.5 * k * k - 4.0], axis=1)
            mass = 1.0 + (k % 3)
        else:
            vel = np.stack([k[::-1] * 2.0 - 5.0, (k % 2) * 7.0 - 1.0, 2.0 - k], axis=1)
            mass = 4.0 - (k % 4) * 0.5
        g["velocity"] = V_(vel[:, 0].copy(), vel[:, 1].copy(), vel[:, 2].copy(), unit="cm/s")
        g["mass"] = A_(mass.copy(), unit="g")
        g["density"] = A_(k + 1.0, unit="g/cm**3")
        for j, name in enumerate(("ex", "ey", "ez")):
            comp = [np.ones(n) if a == j else np.zeros(n) for a in range(3)]
            g[name] = V_(*comp, unit="dimensionless")
        return g, vel, mass

    g0, vel0, mass0 = group(0)
    g1, _, _ = group(1)
    layers = [g0.layer(nm, mode="vec") for nm in ("ex", "ey", "ez")]
    if c["layout"] == "vector-layers-then-other-group":
        layers.append(g1.layer("density"))
    elif c["layout"] == "other-group-image-last":
        layers = layers + [g1.layer("density", mode="image")]
    o = np.array([0.5, 0.5, 0.5])
    d = c["dir"]
    direction = V_(*[float(x) for x in d[1]]) if isinstance(d, list) else d
    try:
        with contextlib.redirect_stdout(io.StringIO()), np.errstate(all="ignore"):
            kw = {"dy": c["dy"] * osyris.units("cm")} if "dy" in c else {}
            p = osyris.map(*layers, direction=direction, dx=c["dx"] * osyris.units("cm"), origin=V_(*o, unit="cm"), resolution=1, plot=False, **kw)
    except Exception as e:
        acc.violation(f"C18:map-raised:{type(e).__name__}", idx, c, {"error": repr(e)[:200]})
        return "raises", True
    u = np.array([float(np.ma.getdata(p.layers[j]["data"])[0, 0, 0]) for j in range(3)])
    v = np.array([float(np.ma.getdata(p.layers[j]["data"])[0, 0, 1]) for j in range(3)])
    if not (np.all(np.isfinite(u)) and np.all(np.isfinite(v))):
        return "skipped-centre-pixel-masked", False
    nvec = np.cross(u, v)
    pr = []
    if abs(np.linalg.norm(u) - 1) > 1e-10 or abs(np.linalg.norm(v) - 1) > 1e-10 or abs(np.dot(u, v)) > 1e-10:
        pr.append(("map-basis-not-orthonormal", {"u": u.tolist(), "v": v.tolist()}))
    # the cells of the FIRST layer inside the window sphere decide 'top' and 'side'
    R = 0.25 * (c["dx"] + c.get("dy", c["dx"]))
    r = pts - o
    inside = np.linalg.norm(r, axis=1) < R
    L = np.sum(mass0[inside, None] * np.cross(r[inside], vel0[inside]), axis=0)
    if d in ("top", "side") and np.linalg.norm(L) == 0:
        return "skipped-zero-angular-momentum", False
    if d == "top":
        w = unit_of(L)
        if np.linalg.norm(np.cross(nvec, w)) > 1e-9 or np.dot(nvec, w) <= 0:
            pr.append(("map-top-view-normal-not-along-angular-momentum-of-mapped-cells", {"n": nvec.tolist(), "L": w.tolist()}))
    elif d == "side":
        w = unit_of(L)
        if abs(np.dot(nvec, w)) > 1e-9:
            pr.append(("map-side-view-angular-momentum-not-in-image-plane", {"n": nvec.tolist(), "L": w.tolist()}))
    elif isinstance(d, list):
        w = unit_of(d[1])
        if np.linalg.norm(np.cross(nvec, w)) > 1e-9 or np.dot(nvec, w) <= 0:
            pr.append(("map-normal-not-parallel-to-request", {"n": nvec.tolist(), "requested": w.tolist()}))
    else:
        axes = {"x": (1, 0, 0), "y": (0, 1, 0), "z": (0, 0, 1)}
        if len(d) == 3:
            # a triple names u and v itself (it may be left-handed): only u and v are observable through the map
            if np.linalg.norm(u - np.array(axes[d[1]], dtype=float)) > 1e-9 or np.linalg.norm(v - np.array(axes[d[2]], dtype=float)) > 1e-9:
                pr.append(("map-triple-axes-not-as-requested", {"u": u.tolist(), "v": v.tolist()}))
        elif np.linalg.norm(nvec - np.array(axes[d[0]], dtype=float)) > 1e-9:
            pr.append(("map-axis-normal-wrong", {"n": nvec.tolist()}))
    for sig, det in pr:
        acc.violation(f"C18:{sig}:{c['layout']}", idx, c, det)
    return ("ok" if not pr else "violation"), True


def unit_of(x):
    """robust unit vector of a float triple (scale first, then hypot)"""
    a = np.asarray(x, dtype=np.float64)
    m = np.max(np.abs(a))
    if m == 0 or not np.isfinite(m):
        return None
    b = a / m
    return b / np.sqrt(np.sum(b * b))


def comps(v):
    z = v.z.values if v.z is not None else 0.0
    return np.array([float(v.x.values), float(v.y.values), float(z)])


def basis_problems(b, want_n=None, right_handed=False, in_plane=None, tag=""):
    pr = []
    n, u, v = comps(b.n), comps(b.u), comps(b.v)
    if not (np.all(np.isfinite(n)) and np.all(np.isfinite(u)) and np.all(np.isfinite(v))):
        return [("basis-contains-nan-or-inf" + tag, {"n": n.tolist(), "u": u.tolist(), "v": v.tolist()})]
    for name, w in (("n", n), ("u", u), ("v", v)):
        if abs(np.linalg.norm(w) - 1.0) > TOL:
            pr.append((f"not-unit-length:{name}" + tag, {"norm": float(np.linalg.norm(w)), name: w.tolist()}))
    if pr:
        return pr
    for (a, p), (bn, q) in itertools.combinations((("n", n), ("u", u), ("v", v)), 2):
        if abs(np.dot(p, q)) > 1e-10:
            pr.append((f"not-perpendicular:{a}.{bn}" + tag, {"dot": float(np.dot(p, q))}))
    if want_n is not None:
        w = unit_of(want_n)
        if np.linalg.norm(np.cross(n, w)) > 1e-10 or np.dot(n, w) <= 0:
            pr.append(("normal-not-parallel-to-request" + tag, {"n": n.tolist(), "requested": w.tolist()}))
    if right_handed and np.linalg.norm(np.cross(u, v) - n) > 1e-10:
        pr.append(("u-cross-v-is-not-n" + tag, {"uxv": np.cross(u, v).tolist(), "n": n.tolist()}))
    if in_plane is not None:
        w = unit_of(in_plane)
        if abs(np.dot(n, w)) > 1e-10:
            pr.append(("angular-momentum-not-in-image-plane" + tag, {"n": n.tolist(), "L": w.tolist()}))
    return pr


def scale_class(c):
    a = np.abs(np.asarray(c, dtype=float))
    nz = a[a > 0]
    if nz.size == 0:
        return "zero"
    if nz.min() < 1e-300:
        return "denormal"
    if nz.max() >= 1e155:
        return "huge"
    if nz.max() <= 1e-155:
        return "tiny"
    if nz.max() / nz.min() > 1e150:
        return "mixed-extreme"
    return "ordinary"


def run_case(acc, idx, c):
    import osyris
    from osyris.plot.direction import get_direction

    V_, A_ = osyris.Vector, osyris.Array
    kind = c["kind"]
    if kind == "via_map":
        return run_via_map(acc, idx, c)
    buf = io.StringIO()
    try:
        with contextlib.redirect_stdout(buf), np.errstate(all="ignore"):
            if kind in ("letter", "triple"):
                b = get_direction(c["dir"])
                axes = {"x": (1, 0, 0), "y": (0, 1, 0), "z": (0, 0, 1)}
                d = c["dir"].lower()
                pr = basis_problems(b, want_n=axes[d[0]])
                if kind == "triple":
                    if not (np.allclose(comps(b.u), axes[d[1]]) and np.allclose(comps(b.v), axes[d[2]])):
                        pr.append(("triple-axes-not-as-requested", {"dir": c["dir"]}))
                else:
                    # single letter: only the normal is given, so u x v = n
                    pr += basis_problems(b, right_handed=True)
                tag = kind
            elif kind == "normal":
                nv = V_(*c["n"], unit=c["unit"]) if c["unit"] else V_(*c["n"])
                b = get_direction(nv)
                pr = basis_problems(b, want_n=c["n"], right_handed=True)
                tag = "normal:" + scale_class(c["n"])
            elif kind == "basis_from_n":
                b = get_direction(osyris.VectorBasis(n=V_(*c["n"])))
                pr = basis_problems(b, want_n=c["n"], right_handed=True)
                tag = "VectorBasis(n):" + scale_class(c["n"])
            elif kind == "basis_from_n_u":
                n = np.asarray(c["n"], dtype=float)
                w = unit_of(n)
                # an exactly perpendicular u for the oracle's own construction
                e = np.eye(3)[int(np.argmin(np.abs(w)))]
                u = np.cross(w, e)
                b = get_direction(osyris.VectorBasis(n=V_(*c["n"]), u=V_(*u)))
                pr = basis_problems(b, want_n=c["n"], right_handed=True)
                if not pr and np.linalg.norm(np.cross(comps(b.u), unit_of(u))) > 1e-10:
                    pr.append(("given-u-not-kept", {}))
                tag = "VectorBasis(n,u):" + scale_class(c["n"])
            else:
                if "generated" in c:
                    pos, vel, mass = generated_cells(c["generated"]["n"])
                else:
                    pos = np.asarray(c["pos"], dtype=float)
                    vel = np.asarray(c["vel"], dtype=float)
                    mass = np.asarray(c["mass"], dtype=float)
                data = osyris.Datagroup({
                    "position": V_(pos[:, 0].copy(), pos[:, 1].copy(), pos[:, 2].copy(), unit="cm"),
                    "velocity": V_(vel[:, 0].copy(), vel[:, 1].copy(), vel[:, 2].copy(), unit="cm/s"),
                    "mass": A_(mass.copy(), unit="g"),
                })
                if c["window"] == "dx50":
                    dx, origin, R, o = 50.0 * osyris.units("cm"), None, 25.0, np.zeros(3)
                elif c["window"] == "dx8":
                    dx, origin, R, o = 8.0 * osyris.units("cm"), None, 4.0, np.zeros(3)
                elif c["window"] == "dx4.4-origin":
                    dx, R, o = 4.4 * osyris.units("cm"), 2.2, np.array([1.0, 0.0, 0.0])
                    origin = V_(*o, unit="cm")
                elif c["window"] == "dx4.4-origin-far":
                    # the same configuration moved far away from the coordinate origin (|origin| / window ~ 1e11; all numbers exact)
                    dx, R = 4.4 * osyris.units("cm"), 2.2
                    o = np.array([1.0, 0.0, 0.0]) + FAR
                    pos = pos + FAR
                    data = osyris.Datagroup({
                        "position": V_(pos[:, 0].copy(), pos[:, 1].copy(), pos[:, 2].copy(), unit="cm"),
                        "velocity": V_(vel[:, 0].copy(), vel[:, 1].copy(), vel[:, 2].copy(), unit="cm/s"),
                        "mass": A_(mass.copy(), unit="g"),
                    })
                    origin = V_(*o, unit="cm")
                elif c["window"] == "dx4.4-origin-in-m":
                    # the same window, the origin written in another unit than the positions
                    dx, R, o = 4.4 * osyris.units("cm"), 2.2, np.array([1.0, 0.0, 0.0])
                    origin = V_(*(o / 100.0), unit="m")
                elif c["window"] == "dx-in-m-origin-in-km":
                    dx, R, o = 0.044 * osyris.units("m"), 2.2, np.array([1.0, 0.0, 0.0])
                    origin = V_(*(o / 1.0e5), unit="km")
                else:
                    dx, origin, o = None, None, np.zeros(3)
                    R = 0.5 * sum(pos[:, i].max() - pos[:, i].min() for i in range(3)) / 3.0
                r = pos - o
                inside = np.linalg.norm(r, axis=1) < R
                L = np.sum(mass[inside, None] * np.cross(r[inside], vel[inside]), axis=0)
                if np.linalg.norm(L) == 0:
                    return "skipped-zero-angular-momentum", False
                b = get_direction(kind, data=data, dx=dx, dy=dx, origin=origin)
                if kind == "top":
                    pr = basis_problems(b, want_n=L, right_handed=True)
                else:
                    pr = basis_problems(b, in_plane=L)
                tag = kind
    except Exception as e:
        acc.violation(f"C18:get_direction-raised:{kind}:{type(e).__name__}", idx, c, {"error": repr(e)[:200]})
        return "raises", True
    for sig, det in pr:
        acc.violation(f"C18:{sig}:{tag}", idx, c, det)
    return ("ok" if not pr else "violation"), True


def work(payload):
    acc = Acc()
    thorough = payload["tier"] == "thorough"
    for idx, c in my_share(cases(thorough), payload):
        out, nontrivial = run_case(acc, idx, c)
        acc.case(nontrivial=nontrivial, outcome=out)
        acc.count("kind:" + c["kind"])
        if idx % 4001 == 0:
            acc.sample(c)
    return acc


def run(ctx):
    acc = Acc.merged(ctx.pool.shards(MOD, "work", ctx.base()))
    cov = {
        "evaluations": acc.evaluations,
        "distinct_nontrivial": acc.nontrivial,
        "rule": "product enumeration (distinct by construction): 6 letters, 18 triples, 19^3-1 normals x units, VectorBasis from n and from "
        "(n,u) over 8^3-1 normals, top/side over cell configurations x window forms; configurations with zero net angular momentum in "
        "the window are outside the statement and counted as skipped (not non-trivial)",
        "samples": acc.samples,
        "exhaustive": True,
        "component_alphabet": COMP_VALUES,
        "kinds": {k: v for k, v in acc.counters.items()},
        "outcomes": dict(acc.outcomes),
    }
    return {"level": LEVEL, "coverage": cov, "violations": acc.violation_list(), "errors": acc.errors,
            "assumptions": ["tolerance 1e-12 on lengths, 1e-10 on perpendicularity and parallelism",
                            "a VectorBasis handed in is one the user built from a normal, or from a normal and a perpendicular u"]}


def replay_sigs(case):
    acc = Acc()
    run_case(acc, 0, case)
    return list(acc.violations.keys())

"""C01 — a full load returns every leaf cell exactly once with true geometry, values, units.

E1 + M1: every AMR tree in a small scope, crossed with every configuration that differs from
a baseline in at most two dimensions (CPU count and oct ownership, ghost population, boundary
regions, header sizes, variable lists, unit systems, output addressing), written to disk by the
M1 writer and loaded by the real loader; the result must equal the model as a multiset of rows.
"""
import itertools

import numpy as np

from ..engines import enumerate as E1
from ..models import ramses as M1
from ..models import units as M2
from ..runner import Acc, my_share
from . import _load

LEVEL = "exploration"
MOD = "mc.props.C01"

RT2 = [("photon_density_1", "d"), ("photon_flux_x_1", "d")]
RT4 = [("photon_density_1", "d"), ("photon_flux_1_x", "d"), ("photon_flux_1_y", "d"), ("photon_flux_1_z", "d")]

SPACE = {
    "ncpu": [1, 2, 3],
    "owners": ["alt", "bylevel", "lastother", "firstother"],
    "ghosts": ["none", "all", "first", "last", "mid"],
    "ghost_son": ["present", "truth"],
    "bnd": ["none", "x2", "all", "one_deep"],
    "noutput": [1, 2, 5],
    "key_width": [8, 16],
    "hydro": ["rvp", "two", "mhd", "odd", "rvp-rev", "mhd-rev"],
    "grav": [False, True],
    "rt": [None, "rt2", "rt4"],
    "units": [[1.0, 1.0, 1.0, 1.0], [2.0, 3.0, 5.0, 2.0], [1.66e-24, 3.08e18, 3.15e13, 4.0]],
    "nout": [1, 7, -1],
    "ordering": ["hilbert", "planar"],
    "info_format": ["repr", "fortran"],
}


def tree_from(desc):
    return M1.Tree(desc["ndim"], desc["levelmax"], [(l, tuple(c)) for l, c in desc["refined"]], desc.get("levelmin", 1))


def make_output(tree, cfg):
    ndim = tree.ndim
    ncpu = cfg["ncpu"]
    octs = tree.all_octs()
    owner = {}
    for i, o in enumerate(octs):
        if isinstance(cfg["owners"], list):
            k = cfg["owners"][1][i]
        elif ncpu == 1:
            k = 0
        elif cfg["owners"] == "alt":
            k = i % ncpu
        elif cfg["owners"] == "bylevel":
            k = o[0] % ncpu
        elif cfg["owners"] == "lastother":
            k = (ncpu - 1) if i == len(octs) - 1 else 0
        else:
            k = (ncpu - 1) if i == 0 else 0
        owner[o] = k
    ghosts = {}
    for k in range(ncpu):
        foreign = [o for o in octs if owner[o] != k]
        g = cfg["ghosts"]
        if g == "none" or not foreign:
            sel = []
        elif g == "all":
            sel = foreign
        elif g == "first":
            sel = foreign[:1]
        elif g == "last":
            sel = foreign[-1:]
        else:
            sel = foreign[len(foreign) // 2: len(foreign) // 2 + 1]
        ghosts[k] = set(sel)
    b = cfg["bnd"]
    L = tree.levelmax
    if b == "none":
        nxyz, bo = (1, 1, 1), []
    elif b == "x2":
        nxyz, bo = (3, 1, 1), [{1: 1}, {1: 1}]
    elif b == "all":
        nxyz = tuple(3 if a < ndim else 1 for a in range(3))
        bo = [{lev: 1 for lev in range(1, min(L, 2) + 1)} for _ in range(2 * ndim)]
    else:
        nxyz, bo = (3, 1, 1), [{lev: lev + 1 for lev in range(1, min(L, 2) + 1)}]
    rt = {None: None, "rt2": RT2, "rt4": RT4}[cfg["rt"]]
    if rt is RT4 and ndim < 3:
        rt = rt[: 1 + ndim]
        if len(rt) < 2:
            rt = RT2
    ud, ul, ut, box = cfg["units"]
    nout = cfg["nout"]
    return M1.Output(
        tree, ncpu=ncpu, owner=owner, ghosts=ghosts, boxlen=box, unit_d=ud, unit_l=ul, unit_t=ut,
        hydro=cfg["hydro"], grav=cfg["grav"], rt=rt, nxyz=nxyz, boundary_octs=bo,
        noutput=cfg["noutput"], key_width=cfg["key_width"], ordering=cfg["ordering"],
        ghost_son=cfg["ghost_son"], nout=12 if nout == -1 else nout, info_format=cfg.get("info_format", "repr"),
    )


def run_case(tree, cfg):
    """-> (problems, info)"""
    out = make_output(tree, cfg)
    with _load.Scratch() as d:
        for k, desc in enumerate(cfg.get("growing", [])):
            # a run directory that grows while the process lives: earlier outputs (other trees, other units) are written and loaded
            # as "the last output" one after the other, before the output of this case is written
            earlier = M1.Output(tree_from(desc), ncpu=cfg["ncpu"], hydro=cfg["hydro"], nout=2 + 3 * k, unit_d=3.0 + k, unit_l=2.0, unit_t=5.0)
            earlier.write(d)
            try:
                ds0, _ = _load.load(d, -1)
                pr0 = _load.compare_mesh(earlier, ds0["mesh"], earlier.expected_mesh())
            except Exception as e:
                pr0 = [("load-raised:" + type(e).__name__, {})]
            if pr0:
                return [(sig + ":last-output-of-a-growing-run", det) for sig, det in pr0], {}
        out.write(d)
        if cfg["nout"] == -1 and not cfg.get("growing"):
            # a decoy with a lower number and different content
            decoy = M1.Output(M1.Tree(tree.ndim, tree.levelmax, [], tree.levelmin), ncpu=cfg["ncpu"], hydro=cfg["hydro"], nout=3,
                              unit_d=7.0, unit_l=7.0, unit_t=7.0)
            decoy.write(d)
        try:
            ds, text = _load.load(d, cfg["nout"])
        except Exception as e:
            import traceback

            return [("load-raised:" + type(e).__name__, {"trace": traceback.format_exc()[-600:]})], {}
    rows = out.expected_mesh()
    problems = []
    if "mesh" not in ds:
        return [("no-mesh-group", {"groups": list(ds.keys())})], {}
    problems += _load.compare_mesh(out, ds["mesh"], rows)
    if cfg.get("growing"):
        problems = [(sig + ":last-output-of-a-growing-run", det) for sig, det in problems]
    if int(ds.meta.get("ncells", -1)) != len(rows):
        problems.append(("meta-ncells", {"got": int(ds.meta.get("ncells", -1)), "expected": len(rows)}))
    try:
        t = ds.meta["time"]
        tv = float(t.magnitude) * M2.unit_info(t.units)[0]
        if M2.unit_info(t.units)[1] != M2.dims_of(s=1) or not np.isclose(tv, out.time * out.unit_t, rtol=1e-12):
            problems.append(("meta-time", {"got": str(t), "expected_s": out.time * out.unit_t}))
    except Exception as e:
        problems.append(("meta-time", {"error": repr(e)}))
    nfiles = _load.processed_files(text)
    if nfiles != cfg["ncpu"]:
        problems.append(("files-processed", {"got": nfiles, "expected": cfg["ncpu"]}))
    info = {"rows": len(rows), "octs": len(tree.all_octs())}
    return problems, info


# ------------------------------------------------------------------ enumeration


def tree_families(thorough, seed):
    """list of (label, iterable of trees) enumerated completely."""
    fam = [
        ("1d-L1", list(M1.enum_trees(1, 1))),
        ("1d-L2", list(M1.enum_trees(1, 2))),
        ("1d-L3", list(M1.enum_trees(1, 3))),
        ("2d-L1", list(M1.enum_trees(2, 1))),
        ("2d-L2", list(M1.enum_trees(2, 2))),
        ("3d-L1", list(M1.enum_trees(3, 1))),
        ("3d-L2", list(M1.enum_trees(3, 2))),
        ("1d-L3-levelmin2", list(M1.enum_trees(1, 3, levelmin=2))),
        ("2d-L3-levelmin2-cap", list(M1.enum_trees(2, 3, levelmin=2, max_refined_per_level={2: 1}))),
        ("2d-L3-cap", list(M1.enum_trees(2, 3, max_refined_per_level={1: 2, 2: 1}))),
        ("3d-L3-cap", list(M1.enum_trees(3, 3, max_refined_per_level={1: 1, 2: 1}))),
    ]
    if thorough:
        fam += [
            ("1d-L4", list(M1.enum_trees(1, 4))),
            ("2d-L3-cap3", list(M1.enum_trees(2, 3, max_refined_per_level={1: 4, 2: 2}))),
            ("3d-L3-cap2", list(M1.enum_trees(3, 3, max_refined_per_level={1: 2, 2: 2}))),
            ("1d-L4-levelmin3", list(M1.enum_trees(1, 4, levelmin=3))),
        ]
    return fam


def core_trees(fams, per_family):
    core = []
    for label, trees in fams:
        n = len(trees)
        idx = sorted({int(round(i * (n - 1) / max(1, per_family - 1))) for i in range(per_family)}) if n > per_family else range(n)
        core += [trees[i] for i in idx]
    return core


BASE_CFGS = [
    {},  # baseline
    {"ncpu": 2, "ghosts": "all"},
    {"ncpu": 3, "ghosts": "all", "owners": "bylevel", "bnd": "all", "grav": True},
]


def scale_trees():
    """Larger outputs: more (cpu, level) blocks, two-digit cpu numbers and deeper levels than the enumerated families."""
    import itertools

    l1 = [(1, c) for c in itertools.product(range(2), repeat=3)]
    l2c = list(itertools.product(range(4), repeat=3))[::3][:17]
    l2 = [(2, c) for c in l2c]
    l3 = [(3, tuple(2 * x + (i % 2) for x in c)) for i, c in enumerate(l2c)]
    big3 = M1.Tree(3, 4, l1 + l2 + l3)
    chain = [(1, (1, 0))]
    c = (1, 0)
    for lev in range(2, 8):
        c = (2 * c[0] + (lev % 2), 2 * c[1] + 1)
        chain.append((lev, c))
    deep2 = M1.Tree(2, 8, chain)
    r1 = [(1, (0,)), (1, (1,))] + [(2, (i,)) for i in range(4)] + [(3, (i,)) for i in range(8)] + [(4, (i,)) for i in range(0, 16, 2)] + [(5, (i,)) for i in range(0, 32, 4)]
    wide1 = M1.Tree(1, 6, r1)
    # levelmax far above the finest level present: the Hilbert key range (2^66, 2^50) is not exactly printable with 15 digits
    deep3 = M1.Tree(3, 21, [(1, (0, 0, 0)), (1, (1, 1, 1)), (2, (1, 1, 0))])
    deep2b = M1.Tree(2, 24, [(1, (0, 1)), (2, (1, 2))])
    return [("3d-L4-42-blocks", big3, 17), ("2d-L8-chain", deep2, 11), ("1d-L6-wide", wide1, 13), ("3d-levelmax21", deep3, 2), ("2d-levelmax24", deep2b, 3)]


def cases(thorough, seed):
    fams = tree_families(thorough, seed)
    base0 = {k: v[0] for k, v in SPACE.items()}
    # block S: scale (many cpus / blocks / levels) x a few configurations
    for label, t, ncpu in scale_trees():
        for extra in ({}, {"ghosts": "first", "grav": True}, {"owners": "bylevel", "ghosts": "last", "bnd": "x2"}, {"info_format": "fortran", "ghosts": "all"}):
            yield ("S:" + label, t, dict(base0, ncpu=ncpu, **extra))
    # block G: output number -1 in a run directory that receives new outputs between loads of one process
    for label, trees in fams:
        if label in ("1d-L2", "2d-L2", "3d-L2"):
            ts = list(trees)
            for i in range(0, min(len(ts), 12) - 2, 2):
                for ncpu in (1, 2):
                    yield ("G:" + label, ts[i + 2], dict(base0, nout=-1, ncpu=ncpu, growing=[ts[i].describe(), ts[i + 1].describe()]))
    base = {k: v[0] for k, v in SPACE.items()}
    # block A: every tree x 3 fixed configurations
    for label, trees in fams:
        for t in trees:
            for bc in BASE_CFGS:
                yield ("A:" + label, t, dict(base, **bc))
    # block B: core trees x all configurations within k deviations of the baseline
    k = 2
    core = core_trees(fams, 4 if not thorough else 8)
    space = SPACE
    for t in core:
        for cfg in E1.deviations(space, k):
            yield ("B", t, cfg)
    # block C: every owner assignment over 2 cpus for trees with <= 5 octs, ghosts all / none
    for label, trees in fams:
        for t in trees:
            octs = t.all_octs()
            if len(octs) > (5 if not thorough else 7) or len(octs) < 2:
                continue
            if not thorough and label.startswith("3d-L2"):
                continue
            for assign in itertools.product([0, 1], repeat=len(octs)):
                if len(set(assign)) < 2:
                    continue
                for g in ("all", "none"):
                    yield ("C:" + label, t, dict(base, ncpu=2, ghosts=g, owners=["explicit", list(assign)]))


def work(payload):
    acc = Acc()
    thorough = payload["tier"] == "thorough"
    for idx, (block, tree, cfg) in my_share(cases(thorough, payload["seed"]), payload):
        problems, info = run_case(tree, cfg)
        nontrivial = info.get("octs", 0) > 1 or cfg["ncpu"] > 1
        acc.case(nontrivial=nontrivial, outcome="ok" if not problems else "violation")
        acc.count("block:" + block.split(":")[0])
        acc.count("rows", info.get("rows", 0))
        for sig, detail in problems:
            acc.violation("C01:" + sig, idx, {"tree": tree.describe(), "cfg": cfg}, detail)
        if idx % 997 == 0:
            acc.sample({"block": block, "tree": tree.describe(), "cfg": cfg, "rows": info.get("rows")})
    return acc


def env_cases(thorough, environment):
    fams = tree_families(False, 0)
    base = {k: v[0] for k, v in SPACE.items()}
    core = core_trees(fams, 2)
    if environment == "user-units":
        for t in core:
            for extra in ({}, {"ncpu": 2, "ghosts": "all"}, {"units": SPACE["units"][1], "grav": True}):
                yield ("E", t, dict(base, hydro="user", **extra))
    else:
        for k, (block, t, cfg) in enumerate(cases(thorough, 0)):
            if k % (53 if thorough else 211) == 0:
                yield (block, t, cfg)


def env_work(payload):
    """A reduced case list run inside another environment (interpreter flags, user configuration)."""
    acc = Acc()
    env = payload["environment"]
    if env == "user-units":
        M2.USER_KINDS.update(M2.USER_UNITS_ENVIRONMENT)
    for idx, (block, tree, cfg) in enumerate(env_cases(payload["tier"] == "thorough", env)):
        problems, info = run_case(tree, cfg)
        acc.case(nontrivial=True, outcome="ok" if not problems else "violation")
        for sig, detail in problems:
            acc.violation("C01:" + sig, idx, {"tree": tree.describe(), "cfg": cfg}, detail)
    return acc


def environment_replay(payload):
    if payload.get("environment") == "user-units":
        M2.USER_KINDS.update(M2.USER_UNITS_ENVIRONMENT)
    return replay_sigs(payload["case"])


def run(ctx):
    from ..runner import ENVIRONMENTS, EnvironmentRuns

    envruns = EnvironmentRuns(MOD, "env_work", ctx.base(), ("python-O", "PYTHONOPTIMIZE=2", "user-units"))
    acc = Acc.merged(ctx.pool.shards(MOD, "work", ctx.base(), nshards=ctx.pool.n * 4) + envruns.results())
    fams = tree_families(ctx.thorough, ctx.seed)
    cov = {
        "evaluations": acc.evaluations,
        "distinct_nontrivial": acc.nontrivial,
        "rule": "cases = (tree, configuration) pairs, all distinct by construction: block A every tree of each family x 3 fixed "
        "configurations; block B core trees x every configuration within 2 deviations of the baseline over "
        f"{len(SPACE)} dimensions; block C every 2-cpu oct-owner assignment for small trees x ghosts all/none. "
        "non-trivial = more than one oct or more than one cpu file",
        "samples": acc.samples,
        "exhaustive": True,
        "tree_families": {label: len(trees) for label, trees in fams},
        "config_dimensions": {k: len(v) for k, v in SPACE.items()},
        "deviation_bound_completed": 2,
        "configs_per_core_tree": E1.count_deviations(SPACE, 2),
        "blocks": {k: v for k, v in acc.counters.items() if k.startswith("block:")},
        "rows_compared": acc.counters.get("rows", 0),
        "outcomes": dict(acc.outcomes),
    }
    return {
        "level": LEVEL,
        "coverage": cov,
        "violations": acc.violation_list(),
        "errors": acc.errors,
        "assumptions": [
            "M1 writer = my reading of the RAMSES binary format; no real RAMSES output is available offline",
            "row order is not part of the statement (multiset comparison keyed by level and position)",
            "1-D outputs may keep position_x/velocity_x as scalars",
            "the M_sun constant is compared to 2e-3 relative (C08 pins the catalogue)",
            "oct ownership is arbitrary here (superset of Hilbert-consistent ownership; C04 uses the latter)",
        ],
    }


def replay_sigs(case):
    if case.get("environment"):
        from ..runner import replay_in_environment

        return replay_in_environment(MOD, case)
    tree = tree_from(case["tree"])
    problems, _ = run_case(tree, case["cfg"])
    return ["C01:" + s for s, _ in problems]

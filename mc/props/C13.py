"""C13 — loading a subset of groups or variables equals projecting the full load.

E1 + M1 (differential against the full load of the same output, which C01 anchors to the model):
every non-empty subset of groups as a list and every subset switched off with False; every subset
of each descriptor's variables (amr, hydro, grav, rt, part), one descriptor at a time and pairs of
descriptors; descriptors with x/y/z-suffixed and -infixed names, partial component sets, names
containing two x's.
"""
import itertools

import numpy as np

from ..models import ramses as M1
from ..runner import Acc, my_share
from . import _load
from . import C01

LEVEL = "exploration"
MOD = "mc.props.C13"

ODD_NAMES = [("density", "d"), ("B_x_left", "d"), ("B_y_left", "d"), ("B_z_left", "d"),
             ("xvar_x", "d"), ("xvar_y", "d"), ("xvar_z", "d"), ("flux", "d"), ("extra_x", "d"),
             # names one of which is the beginning of another: a requested name is an exact name
             ("pressure", "d"), ("pressure_cr", "d"), ("scalar_1", "d"), ("scalar_10", "d"), ("dens", "d")]


def outputs(thorough):
    """label -> builder of an Output with every file kind present."""
    outs = {}
    for ndim in (1, 2, 3):
        trees = [M1.Tree(ndim, 2, [(1, (1,) * ndim)])]
        if thorough or ndim == 2:
            trees.append(M1.Tree(ndim, 3, [(1, (0,) * ndim), (2, (1,) * ndim)]))
        for ti, tree in enumerate(trees):
            for ncpu in (1, 2):
                for hyd in (["rvp", "mhd", "oddnames", "rvp-rev", "mhd-rev"] if (thorough or ndim == 3) else ["rvp", "oddnames", "rvp-rev"]):
                    outs[f"{ndim}d-t{ti}-{ncpu}cpu-{hyd}"] = (ndim, ti, ncpu, hyd)
    # levelmax far above the finest level present, info file written as RAMSES prints it (15 significant digits): the top of the
    # Hilbert key range is not exactly representable there
    outs["3d-levelmax21-2cpu-rvp"] = (3, 21, 2, "rvp")
    outs["2d-levelmax24-2cpu-rvp"] = (2, 24, 2, "rvp")
    return outs


def build(label):
    ndim, ti, ncpu, hyd = outputs(True)[label]
    if ti > 3:
        tree = M1.Tree(ndim, ti, [(1, (0,) * ndim), (1, (1,) * ndim), (2, (1,) * ndim)])
    else:
        tree = M1.Tree(ndim, 2, [(1, (1,) * ndim)]) if ti == 0 else M1.Tree(ndim, 3, [(1, (0,) * ndim), (2, (1,) * ndim)])
    base = {k: v[0] for k, v in C01.SPACE.items()}
    cfg = dict(base, ncpu=ncpu, ghosts="all", grav=True, rt="rt4", units=[2.0, 3.0, 5.0, 2.0], bnd="x2" if ncpu == 2 else "none")
    if ti > 3:
        cfg["info_format"] = "fortran"
    if hyd == "oddnames":
        cfg["hydro"] = "rvp"
    else:
        cfg["hydro"] = hyd
    out = C01.make_output(tree, cfg)
    if hyd == "oddnames":
        names = [n for n in ODD_NAMES if not (n[0].endswith(("_y", "_z")) or "_y_" in n[0] or "_z_" in n[0]) or True]
        comps = "xyz"[:ndim]
        keep = []
        for n, t in ODD_NAMES:
            bad = any((n.endswith("_" + c) or f"_{c}_" in n) for c in "xyz" if c not in comps)
            if not bad:
                keep.append((n, t))
        out.hydro = keep
    rev = hyd.endswith("-rev")
    out.part = M1.make_part(M1.part_descriptor(ndim, reverse=rev), [2, 3][:ncpu])
    out.sink = M1.make_sink(ndim, 2, order="rot" if rev else "xyz")
    return out


def descriptors(out):
    ndim = out.ndim
    return {
        "amr": ["level", "cpu", "dx"] + [f"position_{c}" for c in "xyz"[:ndim]],
        "hydro": [n for n, _ in out.hydro],
        "grav": [n for n, _ in out.grav_vars()],
        "rt": [n for n, _ in out.rt],
        "part": [n for n, _ in out.part["desc"]],
    }


def selections(out, thorough):
    """yield (kind, select-argument description) ; description is JSON-able"""
    groups = ["mesh", "part", "sink"]
    for r in range(1, 4):
        for sub in itertools.combinations(groups, r):
            yield ("groups-list", list(sub))
    for r in range(0, 4):
        for sub in itertools.combinations(groups, r):
            yield ("groups-off", list(sub))
    desc = descriptors(out)
    # the same subsets given as other kinds of iterables than a list
    for form in FORMS:
        if form != "ndarray":  # a group list is tested for truth by load(): an ndarray of names is not a supported spelling
            yield ("groups-list@" + form, ["part", "sink"])
            yield ("groups-list@" + form, ["mesh"])
        for dname, names in desc.items():
            if len(names) >= 2:
                yield (f"vars:{dname}@{form}", [names[0], names[-1]])
            yield (f"vars:{dname}@{form}", list(names))
    for dname, names in desc.items():
        n = len(names)
        cap = 12 if thorough else 9
        if n > cap:
            # all subsets that differ from "all" or "none" by <= 2 names (deviation bound 2)
            subs = set()
            for r in range(0, 3):
                for c in itertools.combinations(range(n), r):
                    subs.add(tuple(sorted(c)))
                    subs.add(tuple(sorted(set(range(n)) - set(c))))
            subs = sorted(subs)
        else:
            subs = [c for r in range(0, n + 1) for c in itertools.combinations(range(n), r)]
        for c in subs:
            yield ("vars:" + dname, [names[i] for i in c])
    # pairs of descriptors: one name set from each (deviation bound: <=2 names dropped per descriptor)
    dnames = [d for d in desc if d != "part"]
    for d1, d2 in itertools.combinations(dnames, 2):
        for s1 in _few_subsets(desc[d1]):
            for s2 in _few_subsets(desc[d2]):
                yield (f"vars:{d1}+{d2}", s1 + s2)


def _few_subsets(names):
    out = [list(names), names[:1], names[-1:], names[1:], names[:-1]]
    if len(names) > 2:
        out.append(names[1:-1])
    res, seen = [], set()
    for s in out:
        t = tuple(s)
        if t not in seen and s:
            seen.add(t)
            res.append(list(s))
    return res


FORMS = ("tuple", "set", "frozenset", "keys", "ndarray")


def as_form(names, form):
    """the same collection of names as another kind of iterable"""
    names = list(names)
    if form == "tuple":
        return tuple(names)
    if form == "set":
        return set(names)
    if form == "frozenset":
        return frozenset(names)
    if form == "keys":
        return {n: None for n in names}.keys()
    if form == "ndarray":
        return np.array(names) if names else np.array([], dtype=str)
    return names


def to_select(kind, arg):
    kind, _, form = kind.partition("@")
    if kind == "groups-list":
        return as_form(arg, form)
    if kind == "groups-off":
        return {g: False for g in arg}
    if kind.startswith("vars:part"):
        return {"part": as_form(arg, form)}
    return {"mesh": as_form(arg, form)}


def snapshot(ds):
    """group -> key -> ('A', unit, bytes) | ('V', {c: (unit, bytes)})"""
    import osyris

    out = {}
    for gname, g in ds.items():
        d = {}
        for k, v in g.items():
            if isinstance(v, osyris.Vector):
                d[k] = ("V", {c: (str(a.unit), np.asarray(a.values).tolist()) for c, a in v._xyz.items()})
            else:
                d[k] = ("A", str(v.unit), np.asarray(v.values).tolist())
        out[gname] = d
    return out


def component_lookup(full_group, name, ndim):
    """value of stored variable `name` in the full load (scalar member or vector component)."""
    if name in full_group:
        e = full_group[name]
        return (e[1], e[2]) if e[0] == "A" else None
    for key, e in full_group.items():
        if e[0] != "V":
            continue
    return None


def expected_from_full(out, full, kind, arg):
    """-> dict group -> dict key -> entry, built from the full load by projection."""
    ndim = out.ndim
    desc = descriptors(out)
    mesh_stored = desc["amr"] + desc["hydro"] + desc["grav"] + desc["rt"]
    part_stored = desc["part"]
    # map stored name -> (unit, values) from the full load
    def stored_values(group, stored):
        vecs, scal = _load.expected_vector_groups(stored, ndim)
        m = {}
        g = full.get(group, {})
        for raw, cl in vecs:
            if raw in g and g[raw][0] == "V":
                for c, cname in zip("xyz", cl):
                    m[cname] = g[raw][1][c]
        for s in scal:
            if s in g and g[s][0] == "A":
                m[s] = (g[s][1], g[s][2])
        return m

    def project(group, stored, requested):
        sv = stored_values(group, stored)
        req = [n for n in stored if n in requested]
        vecs, scal = _load.expected_vector_groups(req, ndim)
        res = {}
        for raw, cl in vecs:
            res[raw] = ("V", {c: sv[cn] for c, cn in zip("xyz", cl)})
        for s in scal:
            res[s] = ("A",) + tuple(sv[s])
        return res

    exp = {}
    if kind == "groups-list":
        for gname in arg:
            if gname in full:
                exp[gname] = full[gname]
        return exp, None
    if kind == "groups-off":
        for gname in full:
            if gname not in arg:
                exp[gname] = full[gname]
        return exp, None
    if kind.startswith("vars:part"):
        exp = {g: full[g] for g in full if g != "part"}
        exp["part"] = project("part", part_stored, arg)
        return exp, "part"
    exp = {g: full[g] for g in full if g != "mesh"}
    exp["mesh"] = project("mesh", mesh_stored, arg)
    # derived variables of the default configuration, when their inputs are present
    fm = full.get("mesh", {})
    if "density" in exp["mesh"] and "dx" in exp["mesh"] and "mass" in fm:
        exp["mesh"]["mass"] = fm["mass"]
    if "B_left" in exp["mesh"] and "B_right" in exp["mesh"] and "B_field" in fm:
        exp["mesh"]["B_field"] = fm["B_field"]
    return exp, "mesh"


def diff(exp, got, focus, whole_groups=False):
    """whole_groups: the selection was over whole groups (a list of groups, groups switched off): a group it leaves out is not
    returned at all, not even as an empty group."""
    problems = []
    for g in exp:
        if g not in got:
            if len(exp[g]) == 0:
                continue
            problems.append((f"group-missing:{g}", {"got": list(got)}))
            continue
        eg, gg = exp[g], got[g]
        miss = sorted(set(eg) - set(gg))
        extra = sorted(set(gg) - set(eg))
        if miss:
            problems.append((f"variable-missing:{g}", {"missing": miss, "got": sorted(gg)}))
        if extra:
            problems.append((f"variable-not-requested-returned:{g}", {"extra": extra}))
        for k in sorted(set(eg) & set(gg)):
            if eg[k] != gg[k]:
                kind = "kind-differs" if eg[k][0] != gg[k][0] else "values-or-unit-differ"
                problems.append((f"{kind}:{g}", {"key": k, "expected": str(eg[k])[:200], "got": str(gg[k])[:200]}))
    for g in got:
        if g not in exp and (len(got[g]) > 0 or whole_groups):
            problems.append((f"group-not-requested-returned:{g}" + ("" if len(got[g]) else ":empty"), {}))
    return problems


_FULL = {}


def run_case(label, kind, arg, keep_dir=None):
    out = build(label)
    with _load.Scratch() as d:
        out.write(d)
        if label not in _FULL:
            try:
                ds, _ = _load.load(d, out.nout)
                _FULL[label] = snapshot(ds)
            except Exception as e:
                import traceback

                _FULL[label] = ("raised", type(e).__name__, traceback.format_exc()[-500:])
        full = _FULL[label]
        sel = to_select(kind, arg)
        try:
            ds, text = _load.load(d, out.nout, select=sel)
        except Exception as e:
            import traceback

            if isinstance(full, tuple):
                return []  # the full load of this output is refused too: there is no projection to disagree with
            return [("load-raised:" + type(e).__name__, {"trace": traceback.format_exc()[-500:]})]
    if isinstance(full, tuple):
        # the selection returns data from an output whose full load raises: it cannot be the projection of it
        return [("selection-loads-what-the-full-load-refuses:" + full[1], {"full_load_trace": full[2]})]
    got = snapshot(ds)
    try:
        exp, focus = expected_from_full(out, full, kind.partition("@")[0], arg)
    except KeyError as e:
        # the full load (made earlier in this process) does not hold a variable that is stored in the files
        return [("full-load-lacks-stored-variable", {"variable": str(e), "full_groups": {g: sorted(v) for g, v in full.items()}})]
    return diff(exp, got, focus, whole_groups=kind.partition("@")[0] in ("groups-list", "groups-off"))


def cases(thorough):
    for label in outputs(thorough):
        out = build(label)
        for kind, arg in selections(out, thorough):
            yield label, kind, arg


def work(payload):
    acc = Acc()
    thorough = payload["tier"] == "thorough"
    # shard by output label so that each worker computes few full loads
    labels = list(outputs(thorough))
    for li, label in enumerate(labels):
        if li % payload["nshards"] != payload["shard"]:
            continue
        out = build(label)
        for j, (kind, arg) in enumerate(selections(out, thorough)):
            problems = run_case(label, kind, arg)
            nontrivial = kind.startswith("vars") and 0 < len(arg)
            acc.case(nontrivial=nontrivial, outcome="ok" if not problems else "violation")
            acc.count(kind.split(":")[0])
            for sig, det in problems:
                acc.violation("C13:" + sig, (li, j), {"output": label, "kind": kind, "arg": arg}, det)
            if j % 701 == 0:
                acc.sample({"output": label, "kind": kind, "select": arg})
        _FULL.pop(label, None)
    return acc


def env_work(payload):
    """Every 9th selection of every 4th output, inside another interpreter environment (python -O strips assert statements: reading a
    subset of the variables must not depend on them)."""
    acc = Acc()
    labels = list(outputs(False))
    for li, label in enumerate(labels):
        if li % 4 != 1:
            continue
        out = build(label)
        for j, (kind, arg) in enumerate(selections(out, False)):
            if j % 9 != 0:
                continue
            problems = run_case(label, kind, arg)
            acc.case(nontrivial=True, outcome="ok" if not problems else "violation")
            for sig, det in problems:
                acc.violation("C13:" + sig, (li, j), {"output": label, "kind": kind, "arg": arg}, det)
        _FULL.pop(label, None)
    return acc


def environment_replay(payload):
    return replay_sigs(payload["case"])


def run(ctx):
    from ..runner import EnvironmentRuns

    envruns = EnvironmentRuns(MOD, "env_work", ctx.base(), ("python-O", "PYTHONOPTIMIZE=2"))
    n = len(outputs(ctx.thorough))
    acc = Acc.merged(ctx.pool.shards(MOD, "work", ctx.base(), nshards=n) + envruns.results())
    cov = {
        "evaluations": acc.evaluations,
        "distinct_nontrivial": acc.nontrivial,
        "rule": "per output (ndim 1-3 x 1-2 trees x 1-2 cpus with ghosts/boundaries x hydro descriptor rvp/mhd/odd-names, with grav, rt, "
        "part, sink present): every non-empty group subset as a list, every group subset switched off, every subset of each "
        "descriptor's variables (deviation bound 2 from all/none for descriptors with more than 9-12 names), and name sets from "
        "pairs of descriptors; non-trivial = a non-empty variable list",
        "samples": acc.samples,
        "exhaustive": True,
        "outputs": n,
        "by_kind": {k: v for k, v in acc.counters.items()},
        "outcomes": dict(acc.outcomes),
    }
    return {"level": LEVEL, "coverage": cov, "violations": acc.violation_list(), "errors": acc.errors,
            "assumptions": ["differential oracle: the full load of the same output (anchored to the model by C01)",
                            "derived variables (mass, B_field) may appear when their inputs were requested",
                            "an empty variable list may yield an empty or absent group"]}


def replay_sigs(case):
    if case.get("environment"):
        from ..runner import replay_in_environment

        return replay_in_environment(MOD, case)
    return ["C13:" + s for s, _ in run_case(case["output"], case["kind"], case["arg"])]

"""C19 — plot calls do not modify their inputs; per-layer options override call options.

E1 (option lattice): for map and histogram2d each of {mode, norm, vmin, vmax, operation, one extra keyword}
set at {neither, layer, call, both with different values}: all 4^6 combinations (thorough) or every
combination within two deviations of 'nothing set' (quick); histogram1d {bins, weights, extra keyword}.
E2 (histories): every sequence (length <= 3, all orders) of eight kinds of plotting calls that share their
argument objects (Arrays, Vectors, a Datagroup, Layers and their keyword dictionaries, resolution
dictionaries, origin, window and limit Quantities, weights); deep snapshots of every shared object
before/after each call must be identical, and each call's data must equal the data of the same call on
fresh objects.
"""
import contextlib
import io
import itertools
import warnings

import numpy as np

from ..engines import enumerate as E1
from ..engines import history
from ..runner import Acc, my_share

LEVEL = "model_checking"
MOD = "mc.props.C19"

OPTS = ["mode", "norm", "vmin", "vmax", "operation", "extra"]
LAYER_VAL = {"mode": "contour", "norm": "log", "vmin": 1.5, "vmax": 50.0, "extra": "magma"}
CALL_VAL = {"mode": "contourf", "norm": "linear", "vmin": 0.5, "vmax": 80.0, "extra": "viridis"}
OP_VALS = {"map": ("mean", "nansum", "sum"), "histogram2d": ("mean", "sum", "sum")}  # layer, call, default


def make_mesh():
    import osyris

    pts = np.array(list(itertools.product([0.25, 0.75], repeat=3)))
    n = len(pts)
    mesh = osyris.Datagroup()
    mesh["position"] = osyris.Vector(pts[:, 0].copy(), pts[:, 1].copy(), pts[:, 2].copy(), unit="cm")
    mesh["dx"] = osyris.Array(np.full(n, 0.5), unit="cm")
    mesh["density"] = osyris.Array(np.arange(1.0, n + 1), unit="g/cm**3")
    mesh["velocity"] = osyris.Vector(np.arange(n) + 1.0, np.arange(n) * 2.0 - 3, np.arange(n) * 0.5 + 2, unit="km/s")
    mesh["mass"] = osyris.Array(np.arange(1.0, n + 1) * 0.125, unit="g")
    return mesh


def quiet():
    return contextlib.redirect_stdout(io.StringIO())


# ------------------------------------------------------------------ option lattice


def lattice_cases(thorough):
    space = {o: ["neither", "layer", "call", "both"] for o in OPTS}
    for fn in ("map", "histogram2d"):
        gen = E1.product(space) if thorough else E1.deviations(space, 2)
        for setting in gen:
            yield {"kind": "lattice", "fn": fn, "setting": setting}
        # the same lattice for a layer whose data is a Vector (shown by its norm): the options are those of the call, whatever the
        # class of the data
        for setting in E1.deviations(space, 2):
            yield {"kind": "lattice", "fn": fn, "setting": dict(setting, data="vector")}
    # what is actually drawn (plot=True): the colour limits that reach matplotlib are the ones requested, for each rendering mode
    for mode in ("image", "contourf", "contour", "stream-coloured"):
        for vmin in ("neither", "layer", "call", "both"):
            for vmax in ("neither", "layer", "call", "both"):
                yield {"kind": "rendered", "fn": "map", "setting": {"mode": mode, "vmin": vmin, "vmax": vmax}}
    # two layers in one call: an option of one layer must not leak into the other
    for fn in ("map", "histogram2d"):
        for bits in itertools.product([False, True], repeat=6):
            yield {"kind": "two_layers", "fn": fn, "setting": dict(zip(["norm_call", "norm_l0", "norm_l1", "vmin_call", "vmin_l0", "vmin_l1"], bits))}
    # several layers of different modes in every order (a scatter overlay may come first): each layer's own operation wins
    kinds = list(LAYER_KINDS)
    for n in (1, 2, 3):
        for seq in itertools.permutations(kinds, n):
            if all(LAYER_KINDS[k][1] == "scatter" for k in seq):
                continue
            for call_op in (None, "sum"):
                yield {"kind": "layer_order", "fn": "map", "setting": {"layers": list(seq), "call_operation": call_op}}
                # ... and with all layers taken from one Datagroup, so that layers showing the same variable share one Array object
                if n > 1:
                    yield {"kind": "layer_order", "fn": "map", "setting": {"layers": list(seq), "call_operation": call_op, "shared_group": True}}
    for bins in ("neither", "layer", "call", "both"):
        for weights in ("neither", "layer", "call", "both"):
            for extra in ("neither", "layer", "call", "both"):
                yield {"kind": "hist1d", "setting": {"bins": bins, "weights": weights, "extra": extra}}


def effective(setting, opt, fn):
    s = setting[opt]
    if opt == "operation":
        lv, cv, dv = OP_VALS[fn]
        return lv if s in ("layer", "both") else (cv if s == "call" else dv)
    if s in ("layer", "both"):
        return LAYER_VAL[opt]
    if s == "call":
        return CALL_VAL[opt]
    return None


def call_with(fn, setting, layer_level_operation=True):
    """-> Plot. Builds fresh arguments with the options placed at the requested levels."""
    import osyris

    Layer = osyris.core.layer.Layer
    lkw, ckw = {}, {}
    for o in OPTS:
        s = setting[o]
        key = "cmap" if o == "extra" else o
        if o == "operation":
            lv, cv, _ = OP_VALS[fn]
        else:
            lv, cv = LAYER_VAL[o], CALL_VAL[o]
        if s in ("layer", "both"):
            lkw[key] = lv
        if s in ("call", "both"):
            ckw[key] = cv
    with quiet(), warnings.catch_warnings(), np.errstate(all="ignore"):
        warnings.simplefilter("ignore")
        if fn == "map":
            mesh = make_mesh()
            lay = mesh.layer("velocity" if setting.get("data") == "vector" else "density", **lkw)
            return osyris.map(lay, direction="z", dx=1.0 * osyris.units("cm"), dz=0.5 * osyris.units("cm"),
                              origin=osyris.Vector(0.5, 0.5, 0.5, unit="cm"), resolution={"x": 2, "y": 2, "z": 2}, plot=False, **ckw)
        x = osyris.Array(np.array([0.5, 1.5, 1.6, 2.5, 3.5, 3.6]), unit="cm", name="x")
        y = osyris.Array(np.array([1.0, 1.0, 1.2, 3.0, 3.0, 3.1]), unit="g", name="y")
        v = osyris.Array(np.array([1.0, 2.0, 4.0, 8.0, 16.0, 32.0]), unit="K", name="v")
        if setting.get("data") == "vector":
            v = osyris.Vector(np.array([1.0, 2.0, 4.0, 8.0, 16.0, 32.0]), np.arange(6.0), np.ones(6), unit="K", name="v")
        return osyris.histogram2d(x, y, Layer(v, **lkw), resolution=2, xmin=0.0, xmax=4.0, ymin=0.0, ymax=4.0, plot=False, **ckw)


def run_lattice(acc, idx, c):
    from matplotlib.colors import LogNorm, Normalize

    fn, setting = c["fn"], c["setting"]
    try:
        p = call_with(fn, setting)
    except Exception as e:
        acc.violation(f"C19:{fn}-raised:{type(e).__name__}", idx, c, {"error": repr(e)[:200]})
        return "raises"
    lay = p.layers[0]
    params = lay["params"]
    problems = []
    if lay["mode"] != effective(setting, "mode", fn):
        problems.append(("mode", lay["mode"], effective(setting, "mode", fn)))
    norm = params.get("norm")
    want_cls = LogNorm if effective(setting, "norm", fn) == "log" else Normalize
    if type(norm) is not want_cls:
        problems.append(("norm", type(norm).__name__, want_cls.__name__))
    for o in ("vmin", "vmax"):
        if getattr(norm, o, "missing") != effective(setting, o, fn):
            problems.append((o, getattr(norm, o, "missing"), effective(setting, o, fn)))
    if params.get("cmap") != effective(setting, "extra", fn):
        problems.append(("extra", params.get("cmap"), effective(setting, "extra", fn)))
    # operation: compare the data with a reference call that sets the effective operation at call level only
    ref_setting = {o: "neither" for o in OPTS}
    eff_op = effective(setting, "operation", fn)
    default_op = OP_VALS[fn][2]

    def ref_call(op):
        import osyris

        Layer = osyris.core.layer.Layer
        with quiet(), warnings.catch_warnings(), np.errstate(all="ignore"):
            warnings.simplefilter("ignore")
            if fn == "map":
                mesh = make_mesh()
                return osyris.map(mesh.layer("velocity" if setting.get("data") == "vector" else "density"), direction="z", dx=1.0 * osyris.units("cm"), dz=0.5 * osyris.units("cm"),
                                  origin=osyris.Vector(0.5, 0.5, 0.5, unit="cm"), resolution={"x": 2, "y": 2, "z": 2}, plot=False, operation=op)
            x = osyris.Array(np.array([0.5, 1.5, 1.6, 2.5, 3.5, 3.6]), unit="cm", name="x")
            y = osyris.Array(np.array([1.0, 1.0, 1.2, 3.0, 3.0, 3.1]), unit="g", name="y")
            v = osyris.Array(np.array([1.0, 2.0, 4.0, 8.0, 16.0, 32.0]), unit="K", name="v")
            if setting.get("data") == "vector":
                v = osyris.Vector(np.array([1.0, 2.0, 4.0, 8.0, 16.0, 32.0]), np.arange(6.0), np.ones(6), unit="K", name="v")
            return osyris.histogram2d(x, y, Layer(v), resolution=2, xmin=0.0, xmax=4.0, ymin=0.0, ymax=4.0, plot=False, operation=op)

    ref = ref_call(eff_op)
    a, b = np.ma.filled(lay["data"], np.nan), np.ma.filled(ref.layers[0]["data"], np.nan)
    if a.shape != b.shape or not np.array_equal(a, b, equal_nan=True) or str(lay.get("unit")) != str(ref.layers[0].get("unit")):
        problems.append(("operation", a.tolist(), b.tolist()))
    for opt, got, want in problems:
        where = setting[opt]
        acc.violation(f"C19:{fn}:option-{opt}-set-at-{where}-not-honoured", idx, c, {"got": repr(got)[:200], "expected": repr(want)[:200]})
    return "ok" if not problems else "violation"


def run_rendered(acc, idx, c):
    import matplotlib.pyplot as plt
    import osyris

    st = c["setting"]
    lkw, ckw = {}, {}
    for o in ("vmin", "vmax"):
        if st[o] in ("layer", "both"):
            lkw[o] = LAYER_VAL[o]
        if st[o] in ("call", "both"):
            ckw[o] = CALL_VAL[o]
    mesh = make_mesh()
    if st["mode"] == "stream-coloured":
        lay = mesh.layer("velocity", mode="stream", color=mesh["velocity"], **lkw)
    else:
        lay = mesh.layer("density", mode=None if st["mode"] == "image" else st["mode"], **lkw)
    try:
        with quiet(), warnings.catch_warnings(), np.errstate(all="ignore"):
            warnings.simplefilter("ignore")
            p = osyris.map(lay, direction="z", dx=1.0 * osyris.units("cm"), origin=osyris.Vector(0.5, 0.5, 0.5, unit="cm"), resolution=8, plot=True, **ckw)
    except Exception as e:
        acc.violation(f"C19:map-rendered-raised:{type(e).__name__}", idx, c, {"error": repr(e)[:200]})
        return "raises"
    finally:
        plt.close("all")
    norm = p.layers[0]["params"].get("norm")
    out = "ok"
    for o in ("vmin", "vmax"):
        want = effective(dict(st, **{k: "neither" for k in OPTS if k not in st}), o, "map")
        if want is not None and getattr(norm, o, "missing") != want:
            acc.violation(f"C19:map:rendered:{o}-set-at-{st[o]}-not-drawn-with:{st['mode']}", idx, c, {"drawn_with": getattr(norm, o, "missing"), "requested": want})
            out = "violation"
    return out


def run_two_layers(acc, idx, c):
    import osyris
    from matplotlib.colors import LogNorm, Normalize, SymLogNorm

    Layer = osyris.core.layer.Layer
    st, fn = c["setting"], c["fn"]
    NORM = {"call": "linear", "l0": "log", "l1": "symlog"}
    VMIN = {"call": 0.5, "l0": 1.5, "l1": 2.5}
    CLS = {"linear": Normalize, "log": LogNorm, "symlog": SymLogNorm, None: Normalize}
    lkw = [{}, {}]
    ckw = {}
    if st["norm_call"]:
        ckw["norm"] = NORM["call"]
    if st["vmin_call"]:
        ckw["vmin"] = VMIN["call"]
    for k in (0, 1):
        if st[f"norm_l{k}"]:
            lkw[k]["norm"] = NORM[f"l{k}"]
        if st[f"vmin_l{k}"]:
            lkw[k]["vmin"] = VMIN[f"l{k}"]
    try:
        with quiet(), warnings.catch_warnings(), np.errstate(all="ignore"):
            warnings.simplefilter("ignore")
            if fn == "map":
                mesh = make_mesh()
                p = osyris.map(mesh.layer("density", **lkw[0]), mesh.layer("mass", **lkw[1]), direction="z", dx=1.0 * osyris.units("cm"),
                               origin=osyris.Vector(0.5, 0.5, 0.5, unit="cm"), resolution=2, plot=False, **ckw)
            else:
                x = osyris.Array(np.array([0.5, 1.5, 1.6, 2.5, 3.5, 3.6]), unit="cm", name="x")
                y = osyris.Array(np.array([1.0, 1.0, 1.2, 3.0, 3.0, 3.1]), unit="g", name="y")
                v = osyris.Array(np.array([1.0, 2.0, 4.0, 8.0, 16.0, 32.0]), unit="K", name="v")
                w = osyris.Array(np.array([3.0, 2.0, 1.0, 8.0, 6.0, 2.0]), unit="s", name="w")
                p = osyris.histogram2d(x, y, Layer(v, **lkw[0]), Layer(w, **lkw[1]), resolution=2, xmin=0.0, xmax=4.0, ymin=0.0, ymax=4.0, plot=False, **ckw)
    except Exception as e:
        acc.violation(f"C19:{fn}-two-layers-raised:{type(e).__name__}", idx, c, {"error": repr(e)[:200]})
        return "raises"
    out = "ok"
    for k in (0, 1):
        want_norm = NORM[f"l{k}"] if st[f"norm_l{k}"] else (NORM["call"] if st["norm_call"] else None)
        want_vmin = VMIN[f"l{k}"] if st[f"vmin_l{k}"] else (VMIN["call"] if st["vmin_call"] else None)
        norm = p.layers[k]["params"].get("norm")
        if type(norm) is not CLS[want_norm]:
            acc.violation(f"C19:{fn}:two-layers:norm-of-layer-{k}-not-honoured", idx, c, {"got": type(norm).__name__, "expected": CLS[want_norm].__name__})
            out = "violation"
        elif getattr(norm, "vmin", "missing") != want_vmin:
            acc.violation(f"C19:{fn}:two-layers:vmin-of-layer-{k}-not-honoured", idx, c, {"got": getattr(norm, "vmin", "missing"), "expected": want_vmin})
            out = "violation"
    if p.layers[0]["params"].get("norm") is p.layers[1]["params"].get("norm"):
        acc.violation(f"C19:{fn}:two-layers:layers-share-one-norm-object", idx, c, {})
        out = "violation"
    return out


# kind -> (variable, mode, layer-level operation)
LAYER_KINDS = {
    "image-mean": ("density", None, "mean"),
    "image-nanmax": ("mass", None, "nanmax"),
    "image-plain": ("density", "contourf", None),
    "image-density-nanmax": ("density", "contour", "nanmax"),
    "scatter": ("mass", "scatter", None),
    "vec-mean": ("velocity", "vec", "mean"),
}
_REF = {}


def _order_map(layers, op):
    import osyris

    kw = {} if op is None else {"operation": op}
    with quiet(), warnings.catch_warnings(), np.errstate(all="ignore"):
        warnings.simplefilter("ignore")
        return osyris.map(*layers, direction="z", dx=1.0 * osyris.units("cm"), dz=0.5 * osyris.units("cm"),
                          origin=osyris.Vector(0.5, 0.5, 0.5, unit="cm"), resolution={"x": 2, "y": 2, "z": 2}, plot=False, **kw)


def run_layer_order(acc, idx, c):
    st = c["setting"]

    shared = make_mesh() if st.get("shared_group") else None

    def layer(kind, with_op=True):
        var, mode, op = LAYER_KINDS[kind]
        kw = {}
        if mode:
            kw["mode"] = mode
        if op and with_op:
            kw["operation"] = op
        return (shared if (shared is not None and with_op) else make_mesh()).layer(var, **kw)

    try:
        p = _order_map([layer(k) for k in st["layers"]], st["call_operation"])
    except Exception as e:
        acc.violation(f"C19:map-layer-order-raised:{type(e).__name__}", idx, c, {"error": repr(e)[:200]})
        return "raises"
    shown = [k for k in st["layers"] if LAYER_KINDS[k][1] != "scatter"]
    if len(p.layers) != len(shown):
        acc.violation("C19:map:layer-order:number-of-rendered-layers", idx, c, {"got": len(p.layers), "expected": len(shown)})
        return "violation"
    out = "ok"
    first_scatter = LAYER_KINDS[st["layers"][0]][1] == "scatter"
    for pos, k in enumerate(shown):
        eff = LAYER_KINDS[k][2] or st["call_operation"]
        key = (k, eff)
        if key not in _REF:
            # reference: the layer alone, its effective operation given at call level only
            r = _order_map([layer(k, with_op=False)], eff)
            _REF[key] = (np.ma.filled(r.layers[0]["data"], np.nan), str(r.layers[0].get("unit")), r.layers[0]["mode"])
        a = np.ma.filled(p.layers[pos]["data"], np.nan)
        b, unit, mode = _REF[key]
        if a.shape != b.shape or not np.array_equal(a, b, equal_nan=True) or str(p.layers[pos].get("unit")) != unit:
            where = "after-a-scatter-layer" if first_scatter else "image-layers-first"
            acc.violation(f"C19:map:layer-order:operation-of-layer-not-honoured:{where}", idx, c,
                          {"layer": k, "position": pos, "effective_operation": eff, "got": a.tolist(), "expected": b.tolist(),
                           "unit": str(p.layers[pos].get("unit")), "expected_unit": unit})
            out = "violation"
        if p.layers[pos]["mode"] != mode:
            acc.violation("C19:map:layer-order:mode-of-layer-not-honoured", idx, c, {"layer": k, "got": p.layers[pos]["mode"], "expected": mode})
            out = "violation"
    return out


def run_hist1d(acc, idx, c):
    import matplotlib.pyplot as plt
    import osyris

    Layer = osyris.core.layer.Layer
    s = c["setting"]
    xv = np.array([0.5, 1.5, 1.6, 2.5, 3.5, 3.6, 3.9, 0.1])
    w_layer = np.arange(1.0, 9.0)
    w_call = np.arange(8.0, 0.0, -1.0)
    x = osyris.Array(xv.copy(), unit="cm", name="x")
    lkw, ckw = {}, {}
    if s["bins"] in ("layer", "both"):
        lkw["bins"] = 5
    if s["bins"] in ("call", "both"):
        ckw["bins"] = 7
    if s["weights"] in ("layer", "both"):
        lkw["weights"] = osyris.Array(w_layer.copy(), unit="g")
    if s["weights"] in ("call", "both"):
        ckw["weights"] = osyris.Array(w_call.copy(), unit="g")
    if s["extra"] in ("layer", "both"):
        lkw["alpha"] = 0.25
    if s["extra"] in ("call", "both"):
        ckw["alpha"] = 0.75
    try:
        with quiet(), warnings.catch_warnings():
            warnings.simplefilter("ignore")
            p = osyris.histogram1d(Layer(x, **lkw), **ckw)
    except Exception as e:
        acc.violation(f"C19:histogram1d-raised:{type(e).__name__}", idx, c, {"error": repr(e)[:200]})
        return "raises"
    nb = 5 if s["bins"] in ("layer", "both") else (7 if s["bins"] == "call" else 50)
    w = w_layer if s["weights"] in ("layer", "both") else (w_call if s["weights"] == "call" else None)
    want, edges = np.histogram(xv, bins=np.linspace(xv.min(), xv.max(), nb + 1), weights=w)
    out = "ok"
    if len(p.x) != nb:
        acc.violation(f"C19:histogram1d:option-bins-set-at-{s['bins']}-not-honoured", idx, c, {"got": len(p.x), "expected": nb})
        out = "violation"
    elif not np.allclose(np.asarray(p.y, dtype=float), want):
        acc.violation(f"C19:histogram1d:option-weights-set-at-{s['weights']}-not-honoured", idx, c, {"got": np.asarray(p.y).tolist(), "expected": want.tolist()})
        out = "violation"
    alpha = 0.25 if s["extra"] in ("layer", "both") else (0.75 if s["extra"] == "call" else None)
    patches = p.ax.patches
    if patches and patches[0].get_alpha() != alpha:
        acc.violation(f"C19:histogram1d:option-extra-set-at-{s['extra']}-not-honoured", idx, c, {"got": patches[0].get_alpha(), "expected": alpha})
        out = "violation"
    plt.close("all")
    return out


def lattice_work(payload):
    acc = Acc()
    thorough = payload["tier"] == "thorough"
    for idx, c in my_share(lattice_cases(thorough), payload):
        out = {"lattice": run_lattice, "two_layers": run_two_layers, "hist1d": run_hist1d, "layer_order": run_layer_order, "rendered": run_rendered}[c["kind"]](acc, idx, c)
        nset = sum(1 for v in c["setting"].values() if v not in ("neither", False, None))
        acc.case(nontrivial=nset > 0, outcome=out)
        if idx % 401 == 0:
            acc.sample(c)
    return acc


# ------------------------------------------------------------------ histories of calls sharing arguments

CALLS = ["map_thin_resdict", "map_thick_two_layers", "map_rendered", "hist2d_limits", "hist2d_rendered", "hist1d", "scatter", "plot",
         "map_thick_default_resolution", "map_thick_partial_dict", "map_thin_other_unit", "map_normobj_unrendered", "hist2d_normobj_unrendered",
         "map_layer_sets_every_option", "hist2d_layer_sets_every_option"]


class Shared:
    """The argument objects shared by all calls of one history."""

    def __init__(self):
        import osyris

        Layer = osyris.core.layer.Layer
        self.mesh = make_mesh()
        self.L1 = self.mesh.layer("density", cmap="magma", vmin=0.5)
        self.L2 = self.mesh.layer("velocity", mode="vec")
        self.L3 = Layer(self.mesh["mass"], operation="mean", norm="log")
        # a layer that sets mode, operation and norm itself: the calls it is given to have nothing to add to it
        self.L6 = self.mesh.layer("mass", mode="contourf", operation="mean", norm="linear")
        self.res1 = {"x": 4}
        self.res2 = {"x": 3, "y": 3}
        self.res3 = {"x": 8, "y": 8}
        self.dx_m = 0.01 * osyris.units("m")
        self.origin = osyris.Vector(0.5, 0.5, 0.5, unit="cm")
        self.dx = 1.0 * osyris.units("cm")
        self.dz = 0.5 * osyris.units("cm")
        self.x = osyris.Array(np.array([0.5, 1.5, 1.6, 2.5, 3.5, 3.6, 0.7, 2.2]), unit="cm", name="xx")
        self.y = osyris.Array(np.array([1.0, 1.0, 1.2, 3.0, 3.0, 3.1, 2.0, 0.4]), unit="g", name="yy")
        self.w = osyris.Array(np.arange(1.0, 9.0), unit="s", name="ww")
        self.L4 = Layer(self.x, bins=5, alpha=0.5)
        self.L7 = Layer(self.w, mode="image", operation="mean", norm="log")
        self.xmin = 0.25 * osyris.units("cm")
        self.size = osyris.Array(np.full(8, 0.1), unit="cm", name="size")
        self.extra = {"cmap": "viridis"}
        # ready-made matplotlib norms, at layer level and for a call: without rendering nothing may touch them
        from matplotlib.colors import LogNorm, PowerNorm

        self.normobj = LogNorm()
        self.L5 = self.mesh.layer("density", norm=PowerNorm(0.5))

    def snapshot(self):
        import osyris

        def sa(a):
            if isinstance(a, osyris.Vector):
                return ["V", a.name, [sa(c) for c in a._xyz.values()]]
            if isinstance(a, osyris.Array):
                arr = np.asarray(a._array)
                return ["A", a.name, str(a.unit), str(arr.dtype), list(arr.shape), arr.tobytes().hex()]
            return repr(a)

        def sl(layer):
            return {"key": layer.key, "arrays": {k: sa(v) for k, v in layer.arrays.items()}, "mode": layer.mode, "operation": layer.operation,
                    "norm": layer.norm if isinstance(layer.norm, (str, type(None))) else type(layer.norm).__name__, "norm_limits": [repr(getattr(layer.norm, "vmin", None)), repr(getattr(layer.norm, "vmax", None))], "vmin": layer.vmin, "vmax": layer.vmax, "bins": repr(layer.bins),
                    "weights": sa(layer.weights) if layer.weights is not None else None, "kwargs": sorted((k, repr(v)) for k, v in layer.kwargs.items()),
                    # whatever else the layer object holds (an options object, a memoised norm ...), followed into attribute objects
                    "hidden": history.deep_hidden_state(layer, known=("key", "arrays", "mode", "operation", "norm", "vmin", "vmax", "bins", "weights", "kwargs"))}

        return {
            "mesh": {k: sa(v) for k, v in self.mesh.items()}, "mesh_keys": list(self.mesh.keys()),
            "L1": sl(self.L1), "L2": sl(self.L2), "L3": sl(self.L3), "L4": sl(self.L4), "L5": sl(self.L5), "L6": sl(self.L6), "L7": sl(self.L7),
            "normobj": [repr(self.normobj.vmin), repr(self.normobj.vmax)],
            "res1": sorted(self.res1.items()), "res2": sorted(self.res2.items()), "res3": sorted(self.res3.items()), "dx_m": repr(self.dx_m), "origin": sa(self.origin),
            "dx": repr(self.dx), "dz": repr(self.dz), "x": sa(self.x), "y": sa(self.y), "w": sa(self.w), "xmin": repr(self.xmin),
            "size": sa(self.size), "extra": sorted(self.extra.items()),
        }


def do_call(name, S):
    """-> JSON-able digest of the data the call returned"""
    import matplotlib.pyplot as plt
    import osyris

    def lay_data(p):
        out = []
        layers = p.layers if isinstance(p.layers, list) else [p.layers]
        for l in layers:
            d = l.get("data")
            if d is None:
                d = l.get("y")
            if hasattr(d, "values"):
                d = d.values
            out.append(None if d is None else np.ma.filled(np.ma.asarray(d, dtype=float), np.nan).tolist())
        return out

    with quiet(), warnings.catch_warnings(), np.errstate(all="ignore"):
        warnings.simplefilter("ignore")
        try:
            if name == "map_thin_resdict":
                p = osyris.map(S.L1, direction="z", dx=S.dx, origin=S.origin, resolution=S.res1, plot=False)
                return [np.asarray(p.x).tolist(), np.asarray(p.y).tolist(), lay_data(p)]
            if name == "map_thick_two_layers":
                p = osyris.map(S.L1, S.L2, direction="x", dx=S.dx, dz=S.dz, origin=S.origin, resolution=S.res2, operation="mean", plot=False, **S.extra)
                return [np.asarray(p.x).tolist(), lay_data(p)]
            if name == "map_rendered":
                p = osyris.map(S.L1, direction="z", dx=S.dx, origin=S.origin, resolution=8, norm="log", plot=True)
                return [np.asarray(p.x).tolist(), lay_data(p)]
            if name == "map_thick_default_resolution":
                p = osyris.map(S.L1, direction="z", dx=S.dx, dz=S.dz, origin=S.origin, plot=False)
                d = lay_data(p)[0]
                return [np.asarray(p.x).tolist()[:4], [row[::37] for row in d[::37]]]
            if name == "map_thick_partial_dict":
                p = osyris.map(S.L1, direction="y", dx=S.dx, dz=S.dz * 0.25, origin=S.origin, resolution=S.res3, plot=False)
                return [np.asarray(p.x).tolist(), lay_data(p)]
            if name == "map_thin_other_unit":
                p = osyris.map(S.L1, direction="z", dx=S.dx_m, origin=S.origin, resolution=4, plot=False)
                return [np.asarray(p.x).tolist(), np.asarray(p.y).tolist(), lay_data(p)]
            if name == "map_normobj_unrendered":
                p = osyris.map(S.L5, S.L1, direction="z", dx=S.dx, origin=S.origin, resolution=4, vmin=1.5, vmax=4.0, plot=False)
                return [np.asarray(p.x).tolist(), lay_data(p), [repr(getattr(l["params"].get("norm"), "vmin", None)) for l in p.layers]]
            if name == "hist2d_normobj_unrendered":
                p = osyris.histogram2d(S.x, S.y, S.mesh["mass"], resolution=3, norm=S.normobj, vmin=2.0, vmax=7.0, plot=False)
                return [np.asarray(p.x).tolist(), lay_data(p)]
            if name == "map_layer_sets_every_option":
                p = osyris.map(S.L6, direction="z", dx=S.dx * 0.5, origin=S.origin, resolution=4, plot=False)
                return [np.asarray(p.x).tolist(), lay_data(p), [repr(getattr(l["params"].get("norm"), "vmin", None)) for l in p.layers]]
            if name == "hist2d_layer_sets_every_option":
                p = osyris.histogram2d(S.x, S.y, S.L7, resolution=3, plot=False)
                return [np.asarray(p.x).tolist(), lay_data(p), [repr(getattr(l["params"].get("norm"), "vmin", None)) for l in p.layers]]
            if name == "hist2d_limits":
                p = osyris.histogram2d(S.x, S.y, S.L3, resolution=4, xmin=S.xmin, plot=False, **S.extra)
                return [np.asarray(p.x).tolist(), lay_data(p)]
            if name == "hist2d_rendered":
                p = osyris.histogram2d(S.x, S.y, S.mesh["mass"], resolution=3, norm="log", logx=True, plot=True)
                return [np.asarray(p.x).tolist(), lay_data(p)]
            if name == "hist1d":
                p = osyris.histogram1d(S.L4, S.y, bins=7, weights=S.w)
                return [np.asarray(p.x).tolist(), np.asarray(p.y).tolist()]
            if name == "scatter":
                p = osyris.scatter(S.x, S.x, color=S.w, size=S.size, norm="log")
                return [np.asarray(p.x).tolist(), np.asarray(p.y).tolist()]
            if name == "plot":
                p = osyris.plot(S.x, S.y, S.w if False else S.y, marker="o")
                return [lay_data(p)]
        finally:
            plt.close("all")
    raise KeyError(name)


def fresh_call(payload):
    """Worker (a process that has done nothing else): the data a call returns on fresh objects."""
    return history.digest(do_call(payload["call"], Shared()))


class Spec:
    def __init__(self, params):
        self.ops = list(params["calls"])
        self.fresh_digest = params["fresh"]

    def fresh(self):
        return Shared(), {}

    def canon(self, impl):
        return impl.snapshot()

    def fresh_result(self, name):
        # computed once per call kind in a process of its own (see run): a reference computed in this process
        # could itself be affected by, or affect, state the library keeps between calls
        return self.fresh_digest[name]

    def step(self, S, model, op):
        problems = []
        before = S.snapshot()
        want = self.fresh_result(op)
        try:
            got = do_call(op, S)
        except Exception as e:
            return ["raised"], [(f"C19:call-raised-after-history:{op}:{type(e).__name__}", {"error": repr(e)[:200]})]
        after = S.snapshot()
        if after != before:
            changed = [k for k in before if before[k] != after[k]]
            for k in changed:
                problems.append((f"C19:input-modified:{op}:{k}", {"before": repr(before[k])[:200], "after": repr(after[k])[:200]}))
        if history.digest(got) != want:
            problems.append((f"C19:result-depends-on-earlier-calls:{op}", {}))
        return [history.digest(got)], problems


def make_spec(name, params):
    return Spec(params)


def run(ctx):
    a1 = Acc.merged(ctx.pool.shards(MOD, "lattice_work", ctx.base()))
    fresh = dict(zip(CALLS, ctx.pool.map_fresh(MOD, "fresh_call", [ctx.base(call=c) for c in CALLS])))
    cov2, a2 = history.explore(ctx.pool, MOD, "calls", {"calls": CALLS, "fresh": fresh}, 2, 3 if ctx.thorough else 2)
    acc = Acc.merged([a1, a2])
    cov = {
        "states": cov2["states"],
        "transitions": cov2["transitions"],
        "traces_validated_against_impl": cov2["transitions"],
        "samples": [cov2["samples"][-1]] + a1.samples[:3],
        "rule": "histories: every sequence of plotting calls sharing argument objects up to the undeduplicated depth (all orders); state = "
        "deep snapshot of every shared object; option lattice: 6 options x {neither, layer, call, both} for map and histogram2d "
        "(complete in the thorough tier, within 2 deviations in the quick tier) and 3 options for histogram1d",
        "history": {k: v for k, v in cov2.items() if k != "samples"},
        "calls": CALLS,
        "evaluations": a1.evaluations,
        "distinct_nontrivial": a1.nontrivial,
        "lattice_outcomes": dict(a1.outcomes),
        "exhaustive": True,
    }
    return {"level": LEVEL, "coverage": cov, "violations": acc.violation_list(), "errors": acc.errors,
            "assumptions": ["norms are given as strings (matplotlib autoscaling mutates a user-supplied Normalize instance by design)",
                            "rendering uses the Agg backend; only returned data and the argument objects are observed",
                            "operation precedence is observed through the data: the call must equal a reference call with the effective operation "
                            "given at call level only"]}


def replay_sigs(case):
    if case.get("kind") in ("lattice", "hist1d", "two_layers", "layer_order", "rendered"):
        acc = Acc()
        {"lattice": run_lattice, "two_layers": run_two_layers, "hist1d": run_hist1d, "layer_order": run_layer_order, "rendered": run_rendered}[case["kind"]](acc, 0, case)
        return list(acc.violations.keys())
    return [s for s, _ in history.replay_case(case)]

"""C03 — a zero-thickness map pixel shows the value of the loaded cell containing its sample point.

E1 + M3: meshes = leaf sets of M1 trees (2-D and 3-D, complete or with holes) x origins on an off-face
lattice (plus an on-face block where any touching cell is accepted) x orientations (axis letters, triples,
lattice normals, VectorBasis) x window sizes from 1/16 of the box to twice the box (dx = dy, dx != dy,
omitted; in cm, m or au) x resolutions; every pixel is compared with brute-force point location.
E3: thread bodies derived from evaluate_on_grid on arguments recorded from real map() calls; off-face
harnesses must be conflict-free (certificate), on-face harnesses are enumerated and every outcome must
lie in the allowed set.
"""
import itertools

import numpy as np

from ..engines import schedules as S
from ..models import ramses as M1
from ..models import units as M2
from ..runner import Acc, my_share
from . import _map

LEVEL = "model_checking"
MOD = "mc.props.C03"


def trees(thorough):
    out = []
    t2 = list(M1.enum_trees(2, 2)) + list(M1.enum_trees(2, 3, max_refined_per_level={1: 2, 2: 1}))
    t3 = list(M1.enum_trees(3, 2, max_refined_per_level={1: 2})) + list(M1.enum_trees(3, 3, max_refined_per_level={1: 1, 2: 1}))
    pick2 = t2 if thorough else [t2[0], t2[1], t2[5], t2[15], t2[20], t2[40]]
    pick3 = (t3[::3] if thorough else [t3[0], t3[1], t3[9], t3[30], t3[45]])
    import itertools as _it

    # uniformly fine meshes (64 and 512 cells): windows that are many cells wide and tall
    fine2 = M1.Tree(2, 3, [(l, c) for l in (1, 2) for c in _it.product(range(2**l), repeat=2)])
    fine3 = M1.Tree(3, 3, [(l, c) for l in (1, 2) for c in _it.product(range(2**l), repeat=3)])
    for t in pick2 + pick3 + [fine2, fine3]:
        out.append((t.describe(), []))
    # meshes with holes: remove one or two leaves
    for t in (pick2[1], pick3[1]):
        leaves = t.leaves()
        out.append((t.describe(), [[leaves[0][0], list(leaves[0][1])]]))
        out.append((t.describe(), [[leaves[1][0], list(leaves[1][1])], [leaves[-1][0], list(leaves[-1][1])]]))
    return out


OFF = 3.0 / 1024.0


def cases(thorough):
    T = trees(thorough)
    wins = [1 / 16, 1 / 8, 1 / 4, 1 / 2, 1.0, 2.0]
    ress = [1, 2, 3, 4, 8]
    dirs3 = ["z", "x", "y", "xyz", "zyx", "yzx", "ZXY"]
    normals = [n for n in itertools.product([-2, -1, 0, 1, 2], repeat=3) if n != (0, 0, 0)]
    for ti, (tree, holes) in enumerate(T):
        ndim = tree["ndim"]
        base = {"tree": tree, "holes": holes}
        origins = [[k / 8 + OFF for _ in range(ndim)] for k in (4, 1, 6)] + [[0.5 + OFF, 0.25 + OFF, 0.75 + OFF][:ndim]]
        # block A: window x resolution x axis orientation (product), origin near the centre
        for w in wins:
            for r in ress:
                for d in (dirs3 if ndim == 3 else ["z"]):
                    if not thorough and ndim == 3 and d not in ("z", "x", "zyx") and r not in (2, 3):
                        continue
                    yield dict(base, block="A", dx=w, resolution=r, direction=d, origin=origins[0])
        # block B: origins x windows, incl. dx != dy, other units, dict resolution, box size/unit variants
        for o in origins[1:]:
            for w in wins:
                yield dict(base, block="B", dx=w, resolution=4, direction="z", origin=o)
        for (wx, wy) in [(1 / 8, 1 / 2), (1.0, 1 / 4), (1 / 16, 1 / 8)]:
            yield dict(base, block="B", dx=wx, dy=wy, resolution={"x": 3, "y": 5}, direction="z", origin=origins[0])
        # tall and wide windows, dy given explicitly (and dy equal to dx given explicitly)
        for (wx, wy) in [(0.3, 0.9), (0.2, 0.7), (0.9, 0.3), (0.4, 0.4)]:
            yield dict(base, block="B", dx=wx, dy=wy, resolution={"x": 4, "y": 12} if wy > wx else 4, direction="z", origin=origins[0])
            if ndim == 3:
                yield dict(base, block="B", dx=wx, dy=wy, resolution=6, direction=["normal", [1, -1, 2]], origin=origins[0])
        for wu, pu, box in [("m", "cm", 1.0), ("cm", "m", 4.0), ("au", "cm", 3.0e13)]:
            for w in (1 / 4, 1.0):
                yield dict(base, block="B", dx=w, resolution=3, direction="z", origin=origins[0], win_unit=wu, pos_unit=pu, box=box)
        # coordinates of very small and very large numerical magnitude in their own unit (an au-scale box stored in kpc, nanometre cells
        # stored in metres, a box of 1e9 pc): nothing is "close to zero" or "close to equal" on an absolute scale
        for wu, pu, box in [("kpc", "kpc", 2.0**-26), ("au", "kpc", 2.0**-26), ("m", "m", 2.0**-30), ("pc", "pc", 2.0**30)]:
            for o in origins[:3]:
                yield dict(base, block="B", dx=1 / 2, resolution=4, direction="z", origin=o, win_unit=wu, pos_unit=pu, box=box)
            if ndim == 3:
                yield dict(base, block="B", dx=1 / 2, resolution=3, direction=["normal", [1, 2, 3]], origin=origins[1], win_unit=wu, pos_unit=pu, box=box)
        # the origin written in another unit than the positions (and than the window)
        for ou, pu, box in [("m", "cm", 1.0), ("km", "cm", 4.0), ("cm", "m", 2.0)]:
            for o in origins[1:3]:
                yield dict(base, block="B", dx=1 / 4, resolution=3, direction="z", origin=o, origin_unit=ou, pos_unit=pu, box=box)
            if ndim == 3:
                yield dict(base, block="B", dx=1 / 2, resolution=3, direction=["normal", [1, 2, -1]], origin=origins[1], origin_unit=ou, pos_unit=pu, box=box)
                yield dict(base, block="B", dx=1 / 2, resolution=3, direction="top", origin=origins[1], origin_unit=ou, pos_unit=pu, box=box)
        # no window: the whole extent
        yield dict(base, block="B", resolution=4, direction="z", origin=origins[0])
        yield dict(base, block="B", resolution=3, direction="z")
        # vector layers
        for w in (1 / 4, 1.0):
            for d in (["z", "x"] if ndim == 3 else ["z"]):
                yield dict(base, block="V", dx=w, resolution=3, direction=d, origin=origins[0], vector_layer=True)
        # vector layers with u and v chosen by the caller: every axis triple (the non-cyclic ones are left-handed), upper case, y
        if ndim == 3:
            for d in ("zyx", "xzy", "yxz", "yzx", "zxy", "xyz", "y", "ZYX"):
                yield dict(base, block="V", dx=1 / 2, resolution=3, direction=d, origin=origins[1], vector_layer=True)
        # block W: the kernels under map() on 2 and 3 virtual threads (static work split), windows larger than the domain
        # and meshes with holes, image heights the thread count does not divide
        if ti % 2 == 0 or holes or thorough:
            for T_ in (2, 3):
                for (w, r) in ((2.0, 5), (1.5, 3), (1.0, 4), (2.0, {"x": 3, "y": 7})):
                    yield dict(base, block="W", dx=w, resolution=r, direction="z", origin=origins[0], virtual_threads=T_)
                yield dict(base, block="W", dx=2.0, resolution=5, direction="z", origin=origins[0], vector_layer=True, virtual_threads=T_)
        # block X: special values and element types of the data: inf / -inf / largest finite / denormal / -0.0 / negative cells are cells
        # like any other; float32 and integer data show the same numbers
        for sp in (["inf"], ["-inf", "inf"], ["fmax", "denorm", "negzero"], ["zero", "neg", "inf"]):
            for off in (0, 1):
                yield dict(base, block="X", dx=1.0, resolution=4, direction="z", origin=origins[0], special=sp, special_offset=off)
            yield dict(base, block="X", dx=1 / 4, resolution=3, direction="z", origin=origins[3], special=sp, vector_layer=True)
        for dtv in ("f4", "i8", "i4"):
            yield dict(base, block="X", dx=1.0, resolution=4, direction="z", origin=origins[0], dens_dtype=dtv)
            # ... followed by float layers (scalar, vector) in the same call: every layer shows its own numbers
            yield dict(base, block="X", dx=1.0, resolution=4, direction="z", origin=origins[0], dens_dtype=dtv, later_float_layer=True)
            yield dict(base, block="X", dx=1.0, resolution=4, direction="z", origin=origins[0], dens_dtype=dtv, vector_layer=True, later_float_layer=True)
        # on-face block: origin exactly on the lattice
        for w in (1 / 4, 1.0):
            yield dict(base, block="F", dx=w, resolution=4, direction="z", origin=[0.5] * ndim)
            yield dict(base, block="F", dx=w, resolution=2, direction="z", origin=[0.25] * ndim)
        # block S: sequences of calls in one process (same window and resolution again, other unit, other layer)
        if ti in (1, 3, 6, 8):
            A = dict(base, dx=1 / 4, resolution=3, direction="z", origin=origins[0], win_unit="m", pos_unit="cm")
            B = dict(A, vector_layer=True)
            Cc = dict(A, origin=origins[1])
            D = dict(A, win_unit="cm")
            E = dict(base, dx=1.0, resolution=4, direction="z", origin=origins[0], win_unit="au", pos_unit="cm", box=3.0e13)
            for seq in ([A, A], [A, B], [A, Cc], [A, D], [D, A], [E, E], [A, E, A], [B, A, A]):
                yield dict(base, block="S", sequence=[dict(x) for x in seq])
        if ndim == 3:
            # block T: 'top' and 'side' views, alone and with a later layer from another Datagroup
            for d in ("top", "side", "TOP"):
                for w in (1.0, 0.5):
                    for sg in (False, True):
                        yield dict(base, block="T", dx=w, resolution=3, direction=d, origin=origins[0], second_group=sg)
            # block C: oblique normals (every lattice direction) and VectorBasis, deviations from the baseline window
            nsel = normals if thorough else normals[::5]
            for n in nsel:
                for w in ((1 / 8, 1 / 2, 2.0) if thorough else (1 / 4, 1.0)):
                    yield dict(base, block="C", dx=w, resolution=3, direction=["normal", list(n)], origin=origins[0])
            for n, u in [((0, 0, 1), (1, 1, 0)), ((1, 1, 1), (1, -1, 0)), ((1, 0, 0), (0, 1, 1))]:
                yield dict(base, block="C", dx=0.5, resolution=4, direction=["basis", list(n), list(u)], origin=origins[0])
                if ti < 3:
                    yield dict(base, block="C", dx=0.5, resolution=4, direction=["basis", list(n), list(u)], origin=origins[0], vector_layer=True)


def run_single(acc, idx, c, report=None):
    report = report or c
    mesh, centres, sizes, vals = _map.build_mesh(c)
    box = c.get("box", 1.0)
    p, basis = _map.call_map(c, mesh)
    small = c.get("dx") is not None and c["dx"] * box < sizes.max()
    tag = ("window-smaller-than-a-cell" if small else "window-not-smaller-than-cells") + (":oblique" if isinstance(c.get("direction"), list) else "")
    if isinstance(p, Exception):
        # is there anything to show? sample the centre pixel grid ourselves
        acc.violation(f"C03:map-raised:{type(p).__name__}:{tag}", idx, report, {"error": repr(p)[:200]})
        return "raises", True
    pts, xs, ys, _ = _map.sample_points(c, p, basis)
    idxs, amb, touch, multi = _map.locate(centres, sizes, pts, box)
    if multi:
        acc.error("M3: overlapping cells in the generated mesh")
        return "harness", False
    idxs, amb, touch = idxs[0], amb[0], touch[0]
    lay = p.layers[0]
    data = np.ma.getdata(lay["data"])
    mask = np.ma.getmaskarray(lay["data"])
    ny, nx = len(ys), len(xs)
    if data.shape != (ny, nx):
        acc.violation("C03:image-shape", idx, report, {"shape": list(data.shape), "expected": [ny, nx]})
        return "violation", True
    dens = vals["density"]
    inside = idxs >= 0
    # strict containment: unmasked and equal to that cell's value
    bad_masked = inside & mask
    if np.any(bad_masked):
        j, i = np.argwhere(bad_masked)[0]
        acc.violation(f"C03:valid-pixel-masked:{tag}", idx, report, {"pixel": [int(j), int(i)], "point": pts[0, j, i].tolist(), "cell": int(idxs[j, i]),
                                                                 "masked_valid_pixels": int(bad_masked.sum()), "valid_pixels": int(inside.sum())})
        return "violation", True
    wrong = inside & ~mask & (data != dens[np.where(inside, idxs, 0)])
    if np.any(wrong):
        j, i = np.argwhere(wrong)[0]
        acc.violation(f"C03:pixel-shows-another-cell:{tag}", idx, report, {"pixel": [int(j), int(i)], "got": float(data[j, i]), "expected": float(dens[idxs[j, i]])})
        return "violation", True
    outside = (~inside) & (~amb)
    if np.any(outside & ~mask):
        j, i = np.argwhere(outside & ~mask)[0]
        acc.violation(f"C03:pixel-outside-every-cell-not-masked:{tag}", idx, report, {"pixel": [int(j), int(i)], "got": float(data[j, i])})
        return "violation", True
    # ambiguous (on a face): masked, or the value of a touching cell
    for (j, i) in np.argwhere(amb):
        if not mask[j, i] and data[j, i] not in dens[touch[j, i]]:
            acc.violation(f"C03:on-face-pixel-shows-a-non-touching-cell:{tag}", idx, report, {"pixel": [int(j), int(i)], "got": float(data[j, i])})
            return "violation", True
    # vector layer: projections on u and v and in-plane magnitude
    if c.get("vector_layer"):
        vl = p.layers[1]
        vd = np.ma.getdata(vl["data"])
        vm = np.ma.getmaskarray(vl["data"])
        if vd.shape != (ny, nx, 3):
            acc.violation("C03:vector-image-shape", idx, report, {"shape": list(vd.shape)})
            return "violation", True
        n_, u_, v_ = basis
        vel = vals["velocity"]
        eu = vel @ u_[: vel.shape[1]] if vel.shape[1] == 3 else vel[:, 0]
        ev = vel @ v_[: vel.shape[1]] if vel.shape[1] == 3 else vel[:, 1]
        ew = np.sqrt(eu**2 + ev**2)
        sel = inside
        want = np.stack([eu[np.where(sel, idxs, 0)], ev[np.where(sel, idxs, 0)], ew[np.where(sel, idxs, 0)]], axis=-1)
        if np.any(vm[sel]):
            acc.violation(f"C03:vector-valid-pixel-masked:{tag}", idx, report, {})
            return "violation", True
        if not np.allclose(vd[sel], want[sel], rtol=1e-12, atol=1e-12 * np.abs(vel).max()):
            acc.violation(f"C03:vector-projection-wrong:{tag}", idx, report, {"got": vd[sel][0].tolist(), "expected": want[sel][0].tolist()})
            return "violation", True
        if str(vl.get("unit")) != str(mesh["velocity"].unit):
            acc.violation("C03:vector-layer-unit", idx, report, {"unit": str(vl.get("unit"))})
    if c.get("later_float_layer"):
        ml = p.layers[2 if c.get("vector_layer") else 1]
        md, mm = np.ma.getdata(ml["data"]), np.ma.getmaskarray(ml["data"])
        wantm = vals["mass"][np.where(inside, idxs, 0)]
        if md.shape != (ny, nx) or np.any(mm[inside]) or not np.array_equal(md[inside], wantm[inside]):
            acc.violation(f"C03:later-layer-does-not-show-its-own-values:{tag}", idx, report, {"got": np.ravel(md[inside])[:3].tolist(), "expected": np.ravel(wantm[inside])[:3].tolist()})
            return "violation", True
    if str(lay.get("unit")) != str(mesh["density"].unit) or lay.get("name") != "density":
        acc.violation("C03:layer-unit-or-name", idx, report, {"unit": str(lay.get("unit")), "name": lay.get("name")})
        return "violation", True
    nvalid = int(inside.sum())
    acc.count("pixels", ny * nx)
    acc.count("pixels_inside_a_cell", nvalid)
    acc.count("pixels_on_a_face", int(amb.sum()))
    return "ok", 0 < nvalid


def run_case(acc, idx, c):
    """A case is one map() call, or a sequence of calls made one after the other in the same process (state the
    library keeps between calls must not change any of them)."""
    if "sequence" not in c:
        return run_single(acc, idx, c)
    out, nontrivial = "ok", False
    for k, sub in enumerate(c["sequence"]):
        before = set(acc.violations)
        o, nt = run_single(acc, idx, dict(sub, block=c["block"]), report=c)
        nontrivial = nontrivial or nt
        if o != "ok":
            out = o
            # tag the signatures found at a later step of a sequence
            if k > 0:
                for sig in set(acc.violations) - before:
                    acc.violations[sig + ":only-after-earlier-calls"] = acc.violations.pop(sig)
                    acc.vcount[sig + ":only-after-earlier-calls"] = acc.vcount.pop(sig)
                    for _, rec in acc.violations[sig + ":only-after-earlier-calls"]:
                        rec["sig"] = sig + ":only-after-earlier-calls"
            break
    return out, nontrivial


def work(payload):
    acc = Acc()
    thorough = payload["tier"] == "thorough"
    for idx, c in my_share(cases(thorough), payload):
        out, nontrivial = run_case(acc, idx, c)
        acc.case(nontrivial=nontrivial, outcome=out)
        acc.count("block:" + c["block"])
        if idx % 1709 == 0:
            acc.sample(c)
    return acc


# ------------------------------------------------------------------ E3 on evaluate_on_grid


def record_kernel_args(c):
    """Run a real map() call with evaluate_on_grid replaced by a recorder; -> kwargs the kernel received."""
    import sys

    import osyris

    mapmod = sys.modules["osyris.plot.map"]

    rec = {}
    real = mapmod.evaluate_on_grid

    def recorder(**kw):
        rec.update(kw)
        return real(**kw)

    mapmod.evaluate_on_grid = recorder
    try:
        mesh, centres, sizes, vals = _map.build_mesh(c)
        p, basis = _map.call_map(c, mesh)
    finally:
        mapmod.evaluate_on_grid = real
    if isinstance(p, Exception) or not rec:
        raise RuntimeError(f"harness: could not record kernel arguments: {p!r}")
    return rec, (centres, sizes, vals, p, basis)


def e3_harnesses(thorough):
    t2 = M1.Tree(2, 2, [(1, (0, 0))]).describe()
    t3 = M1.Tree(3, 1, []).describe()
    t2b = M1.Tree(2, 1, []).describe()
    H = {
        "2d-7cells-3x3-off-face": dict(tree=t2, holes=[], dx=1.0, resolution=3, origin=[0.5 + OFF, 0.5 + OFF], vector_layer=True),
        "2d-4cells-2x2-on-faces": dict(tree=t2b, holes=[], dx=1.0, resolution=2, origin=[0.5, 0.5]),
        "2d-4cells-4x4-on-faces": dict(tree=t2b, holes=[], dx=1.0, resolution=4, origin=[0.5, 0.5]),
        "2d-4cells-centre-pixel-on-corner": dict(tree=t2b, holes=[], dx=0.5, resolution=1, origin=[0.5, 0.5], vector_layer=True),
        # window larger than the domain: the outer ring of pixels has no cell and must stay blank for every work split
        "2d-4cells-3x3-window-larger-than-domain": dict(tree=t2b, holes=[], dx=3.0, resolution=3, origin=[0.5 + OFF, 0.5 + OFF]),
        "2d-4cells-5x5-window-larger-than-domain": dict(tree=t2b, holes=[], dx=2.5, resolution=5, origin=[0.5 + OFF, 0.5 + OFF]),
        "3d-8cells-2x2-off-face": dict(tree=t3, holes=[], dx=1.0, resolution=2, origin=[0.5 + OFF] * 3, direction="z"),
        "3d-8cells-2x2-plane-on-face": dict(tree=t3, holes=[], dx=1.0, resolution=2, origin=[0.5 + OFF, 0.5 + OFF, 0.5], direction="z"),
    }
    if thorough:
        H["2d-7cells-4x4-on-faces"] = dict(tree=t2, holes=[], dx=1.0, resolution=4, origin=[0.5, 0.5])
        H["3d-8cells-oblique"] = dict(tree=t3, holes=[], dx=1.0, resolution=3, origin=[0.5 + OFF] * 3, direction=["normal", [1, 1, 1]])
    return H


def e3_harnesses_thick(thorough):
    """harnesses for C11: slabs with 2-3 depth samples"""
    t3 = M1.Tree(3, 1, []).describe()
    t2b = M1.Tree(2, 1, []).describe()
    t3b = M1.Tree(3, 2, [(1, (0, 0, 0))]).describe()
    H = {
        "3d-8cells-2x2x2-off-face": dict(tree=t3, holes=[], dx=1.0, dz=0.5, resolution={"x": 2, "y": 2, "z": 2}, origin=[0.5 + OFF] * 3, direction="z"),
        "3d-8cells-2x2x2-depth-samples-on-faces": dict(tree=t3, holes=[], dx=1.0, dz=1.0, resolution={"x": 2, "y": 2, "z": 2}, origin=[0.5 + OFF, 0.5 + OFF, 0.75], direction="z"),
        "2d-4cells-2x2x2": dict(tree=t2b, holes=[], dx=1.0, dz=0.5, resolution={"x": 2, "y": 2, "z": 2}, origin=[0.5 + OFF, 0.5 + OFF]),
    }
    if thorough:
        H["3d-15cells-3x3x3-off-face"] = dict(tree=t3b, holes=[], dx=1.0, dz=0.75, resolution={"x": 3, "y": 3, "z": 3}, origin=[0.5 + OFF] * 3, direction="x")
    return H


KERNEL_ARG_ORDER = None


def e3_work(payload):
    from osyris.plot import utils as U

    acc = Acc()
    thorough = payload["tier"] == "thorough"
    fn, info = S.rewrite(U.evaluate_on_grid)
    H = e3_harnesses_thick(thorough) if payload.get("harness_set") == "thick" else e3_harnesses(thorough)
    prop = "C11" if payload.get("harness_set") == "thick" else "C03"
    for hi, hname in enumerate(H):
        if hi % payload["nshards"] != payload["shard"]:
            continue
        c = H[hname]
        rec, (centres, sizes, vals, p, basis) = record_kernel_args(c)
        args = tuple(rec[a] for a in info["args"])
        seq, s0 = S.run_sequential(fn, info, args)
        ncell = len(rec["cell_sizes"])
        conf = S.conflicts(s0)
        # allowed values per output element: the sequential value, or (on a face) any touching cell's value for that layer
        cell_values = np.asarray(rec["cell_values"])
        allowed = {}
        for (name, el, kind, its) in conf:
            if name == "out":
                lay = el // (seq.size // seq.shape[0])
                allowed[el] = set(float(cell_values[lay, n]) for n in its)
        maxT = 3 if (thorough and ncell <= 5) else 2
        parts = [sorted(pp) for pp in S.set_partitions(range(ncell), maxT)]
        if len(parts) > 40:
            # every partition into 2 blocks that separates a conflicting pair, plus a spread of the others
            pairs = {tuple(sorted(its))[:2] for (_, _, _, its) in conf if len(its) > 1}
            sel = [pp for pp in parts if len(pp) > 1 and any(len({next(k for k, b in enumerate(pp) if i in b) for i in pr}) > 1 for pr in pairs)]
            parts = (sel[:40] if sel else []) + parts[:: max(1, len(parts) // 10)]
        for part in parts:
            case = {"kind": "schedule", "harness": hname, "partition": part}
            if not info["parallel"] or len(part) <= 1:
                acc.case(nontrivial=False, outcome="sequential")
                acc.count("executions")
                continue
            cross = S.cross_conflicts(s0, part, len(part))

            def check(res, seq=seq, allowed=allowed):
                r, q = np.asarray(res).ravel(), np.asarray(seq).ravel()
                diff = np.flatnonzero(~((r == q) | (np.isnan(r) & np.isnan(q))))
                for el in diff.tolist():
                    if el not in allowed or float(r[el]) not in allowed[el]:
                        return {"element": int(el), "got": float(r[el]), "sequential": float(q[el]), "allowed": sorted(allowed.get(el, []))}
                return None

            if not cross:
                res, s = S.run_threads(fn, info, args, part, [])
                acc.count("executions")
                acc.count("conflict_free_partitions")
                acc.case(nontrivial=True, outcome="conflict-free-certificate")
                d = check(res)
                if d:
                    acc.violation(prop + ":schedule-dependent-result:conflict-free-input", (0, hi), dict(case, schedule=[]), d)
                continue
            found = False
            last = None
            for b in (0, 1, 2):
                out = S.explore_subtree(fn, info, args, part, [], b, check, limit=4000)
                last = out
                acc.count("executions", out["executions"])
                acc.count("choice_points", out["executions"] * out["max_choices"])
                for sched, d in [f for f in out["failures"] if f]:
                    acc.violation(prop + ":schedule-dependent-result:pixel-outside-allowed-set", (1, b), dict(case, schedule=sched, preemption_bound=b), d)
                    found = True
                if out["capped"]:
                    acc.count("capped_enumerations")
                if found:
                    break
            acc.case(nontrivial=True, outcome="violation" if found else "enumerated-bound-2")
            acc.counters["distinct_final_states"] = max(acc.counters["distinct_final_states"], len(last["outcomes"]))
            acc.sample({"harness": hname, "partition": part, "cross_thread_conflicts": len(cross), "executions_at_bound_2": last["executions"],
                        "distinct_final_states": len(last["outcomes"])}, limit=3)
    return acc


def e3_replay(case, prop="C03"):
    from osyris.plot import utils as U

    fn, info = S.rewrite(U.evaluate_on_grid)
    c = {**e3_harnesses(True), **e3_harnesses_thick(True)}[case["harness"]]
    rec, _ = record_kernel_args(c)
    args = tuple(rec[a] for a in info["args"])
    seq, s0 = S.run_sequential(fn, info, args)
    if not info["parallel"]:
        return []
    conf = S.conflicts(s0)
    cell_values = np.asarray(rec["cell_values"])
    allowed = {}
    for (name, el, kind, its) in conf:
        if name == "out":
            allowed[el] = set(float(cell_values[el // (seq.size // seq.shape[0]), n]) for n in its)
    res, s = S.run_threads(fn, info, args, case["partition"], case["schedule"])
    r, q = np.asarray(res).ravel(), np.asarray(seq).ravel()
    for el in np.flatnonzero(~((r == q) | (np.isnan(r) & np.isnan(q)))).tolist():
        if el not in allowed or float(r[el]) not in allowed[el]:
            return [prop + ":schedule-dependent-result:" + ("pixel-outside-allowed-set" if case["schedule"] else "conflict-free-input")]
    return []


def run(ctx):
    a1 = Acc.merged(ctx.pool.shards(MOD, "work", ctx.base(), nshards=ctx.pool.n * 2))
    a3 = Acc.merged(ctx.pool.shards(MOD, "e3_work", ctx.base(), nshards=len(e3_harnesses(ctx.thorough))))
    acc = Acc.merged([a1, a3])
    execs = a3.counters.get("executions", 0)
    cov = {
        "states": max(1, execs),
        "transitions": max(1, a3.counters.get("choice_points", 0) + execs),
        "traces_validated_against_impl": execs,
        "samples": (a3.samples[:2] + a1.samples[:3]) or [{}],
        "rule": "schedules: states = complete interleavings executed on thread bodies derived from evaluate_on_grid (arguments recorded "
        "from real map() calls), transitions = scheduling decisions; inputs: (mesh, origin, orientation, window, resolution) cases, "
        "all distinct by construction, non-trivial = at least one pixel lies strictly inside a cell",
        "evaluations": a1.evaluations,
        "distinct_nontrivial": a1.nontrivial,
        "map_calls": a1.evaluations,
        "pixels_checked": a1.counters.get("pixels", 0),
        "pixels_inside_a_cell": a1.counters.get("pixels_inside_a_cell", 0),
        "pixels_on_a_face": a1.counters.get("pixels_on_a_face", 0),
        "blocks": {k: v for k, v in a1.counters.items() if k.startswith("block:")},
        "input_outcomes": dict(a1.outcomes),
        "schedules_executed": execs,
        "conflict_free_partitions": a3.counters.get("conflict_free_partitions", 0),
        "capped_enumerations": a3.counters.get("capped_enumerations", 0),
        "schedule_outcomes": dict(a3.outcomes),
        "preemption_bound": 2,
        "exhaustive": True,
    }
    return {"level": LEVEL, "coverage": cov, "violations": acc.violation_list(), "errors": acc.errors,
            "assumptions": ["sample points within 1e-9 box of a face accept any touching cell (or masked)",
                            "the basis (u, v, n) is the one get_direction returns (C18 checks it)",
                            "schedule exploration: source-derived bodies, sequential consistency, a slice store is one step; torn pixels across "
                            "layers between touching cells are within the statement's on-face allowance",
                            "a capped enumeration (limit 4000 executions per bound) is reported as capped"]}


def replay_sigs(case):
    if case.get("kind") == "schedule":
        return e3_replay(case)
    acc = Acc()
    run_case(acc, 0, case)
    return list(acc.violations.keys())

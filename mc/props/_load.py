"""Shared helpers for the loader properties (C01 C04 C12 C13 C14 C15): run the real loader on an
M1 output, flatten the result into comparable CGS columns, compare with the model."""
import contextlib
import io
import os
import shutil

import numpy as np

from ..models import units as M2
from ..runner import scratch_dir


def load(path, nout, **kw):
    """-> (dataset, captured stdout)"""
    import osyris

    buf = io.StringIO()
    with contextlib.redirect_stdout(buf):
        ds = osyris.RamsesDataset(nout, path=path)
        ds.load(**kw)
    return ds, buf.getvalue()


def new_dataset(path, nout):
    import osyris

    buf = io.StringIO()
    with contextlib.redirect_stdout(buf):
        return osyris.RamsesDataset(nout, path=path)


def call_load(ds, **kw):
    buf = io.StringIO()
    with contextlib.redirect_stdout(buf):
        ds.load(**kw)
    return buf.getvalue()


def processed_files(text):
    for line in text.splitlines():
        if line.startswith("Processing "):
            return int(line.split()[1])
    return None


class Scratch:
    """with Scratch() as d: ... ; removed afterwards"""

    def __enter__(self):
        self.d = scratch_dir()
        return self.d

    def __exit__(self, *a):
        shutil.rmtree(self.d, ignore_errors=True)


def expected_vector_groups(names, ndim):
    """Independent statement of the merge rule: a set of names that differ only in one
    component letter x/y/z (all ndim of them present) becomes one vector named by removing the
    letter and a preceding underscore (empty -> 'position'). -> (vectors, scalars)
    vectors: list of (rawname, [component names]); scalars: names left alone."""
    comps = "xyz"[:ndim]
    names = list(names)
    if ndim < 2:
        return [], names
    vectors, used = [], set()
    for name in names:
        for i, ch in enumerate(name):
            if ch != "x":
                continue
            cl = [name[:i] + c + name[i + 1:] for c in comps]
            if all(c in names for c in cl):
                cut = i - 1 if (i > 0 and name[i - 1] == "_") else i
                raw = name[:cut] + name[i + 1:]
                vectors.append((raw or "position", cl))
                used.update(cl)
    scalars = [n for n in names if n not in used]
    return vectors, scalars


def flatten_group(g):
    """Datagroup -> dict colname -> (values in CGS as float64 ndarray, dims, tol, raw unit str)
    Vector members become 'name.x', 'name.y', 'name.z'."""
    import osyris

    out = {}
    for key, v in g.items():
        if isinstance(v, osyris.Vector):
            items = [(f"{key}.{c}", a) for c, a in v._xyz.items()]
        else:
            items = [(key, v)]
        for name, a in items:
            scale, dims, tol = M2.unit_info(a.unit)
            vals = np.atleast_1d(np.asarray(a.values, dtype=np.float64)) * scale
            out[name] = (vals, dims, tol, str(a.unit), str(a.dtype))
    return out


def sort_key_matrix(level, pos, box):
    """lexicographic order by (level, rounded position)"""
    q = np.round(np.asarray(pos) / box * 2.0**20).astype(np.int64)
    cols = [q[:, i] for i in range(q.shape[1] - 1, -1, -1)] + [np.asarray(level).astype(np.int64)]
    return np.lexsort(cols)


def expected_columns(out, rows, unit_override=None):
    """Model rows -> dict colname -> (CGS values, dims, tol) incl. merged-vector naming and
    derived variables (mass, B_field)."""
    ndim = out.ndim
    eu = M2.ramses_expected_units(out.unit_d, out.unit_l, out.unit_t)
    n = len(rows)
    cols = {}
    cols["level"] = (np.array([r["level"] for r in rows], dtype=float), M2.dims_of(), 0.0)
    cols["cpu"] = (np.array([r["cpu"] for r in rows], dtype=float), M2.dims_of(), 0.0)
    fl, dl = eu["length"]
    cols["dx"] = (np.array([r["dx"] for r in rows], dtype=float) * fl, dl, 0.0)
    stored = [f"position_{c}" for c in "xyz"[:ndim]]
    raw = {}
    for i, c in enumerate("xyz"[:ndim]):
        raw[f"position_{c}"] = np.array([r["pos"][i] for r in rows], dtype=float).reshape(n)
    groups = [out.hydro]
    if out.grav:
        groups.append(out.grav_vars())
    if out.rt:
        groups.append(out.rt)
    for grp in groups:
        for name, _ in grp:
            stored.append(name)
            raw[name] = np.array([r[name] for r in rows], dtype=float).reshape(n)
    vectors, scalars = expected_vector_groups(stored, ndim)
    for name in scalars:
        f, d = eu[M2.ramses_kind(name)]
        cols[name] = (raw[name] * f, d, 0.0)
    for rawname, cl in vectors:
        for c, cname in zip("xyz", cl):
            f, d = eu[M2.ramses_kind(cname)]
            cols[f"{rawname}.{c}"] = (raw[cname] * f, d, 0.0)
    # derived variables of the default configuration
    if "density" in cols:
        cols["mass"] = (cols["density"][0] * cols["dx"][0] ** 3, M2.dims_of(g=1), 2e-3)
    if all(f"B_left.{c}" in cols and f"B_right.{c}" in cols for c in "xyz"[:ndim]) and ndim > 1:
        for c in "xyz"[:ndim]:
            cols[f"B_field.{c}"] = (0.5 * (cols[f"B_left.{c}"][0] + cols[f"B_right.{c}"][0]), M2.GAUSS, 0.0)
    return cols


def compare_mesh(out, mesh, rows, check_derived=True, only=None):
    """-> list of (sig, detail). Multiset comparison keyed by (level, position)."""
    problems = []
    ndim = out.ndim
    exp = expected_columns(out, rows)
    if not check_derived:
        for k in list(exp):
            if k == "mass" or k.startswith("B_field"):
                del exp[k]
    try:
        got = flatten_group(mesh)
    except M2.UnknownUnit as e:
        return [("unknown-unit-in-result", {"unit": str(e)})]
    # 1-D outputs keep position_x etc. as scalars, or may use a 1-component vector
    if ndim == 1:
        ren = {}
        for k in got:
            if k.endswith(".x") and k[:-2] + "_x" in exp:
                ren[k] = k[:-2] + "_x"
            if k == "position.x":
                ren[k] = "position_x"
        for a, b in ren.items():
            got[b] = got.pop(a)
    if only is not None:
        exp = {k: v for k, v in exp.items() if k in only}
    missing = sorted(set(exp) - set(got))
    extra = sorted(set(got) - set(exp))
    if missing:
        problems.append((f"missing-column:{_kind(missing[0])}", {"missing": missing, "got": sorted(got)}))
    if extra:
        problems.append((f"unexpected-column:{_kind(extra[0])}", {"extra": extra}))
    n_exp = len(rows)
    lens = {k: len(v[0]) for k, v in got.items()}
    if any(l != n_exp for l in lens.values()):
        bad = {k: l for k, l in lens.items() if l != n_exp}
        problems.append(("row-count", {"expected": n_exp, "got": bad}))
        return problems
    if n_exp == 0:
        return problems
    box = out.boxlen * out.unit_l
    pcols = [f"position.{c}" for c in "xyz"[:ndim]] if ndim > 1 else ["position_x"]
    if not all(p in got for p in pcols) or "level" not in got:
        # cannot key rows: compare as sorted columns
        for k in sorted(set(exp) & set(got)):
            e, g = np.sort(exp[k][0]), np.sort(got[k][0])
            if not np.allclose(g, e, rtol=max(1e-12, exp[k][2]), atol=0):
                problems.append((f"values:{_kind(k)}", {"column": k}))
        return problems
    gi = sort_key_matrix(got["level"][0], np.stack([got[p][0] for p in pcols], axis=1), box)
    ei = sort_key_matrix(exp["level"][0], np.stack([exp[p][0] for p in pcols], axis=1), box)
    for k in sorted(set(exp) & set(got)):
        ev, ed, et = exp[k]
        gv, gd, gt, gu, gdt = got[k]
        if tuple(gd) != tuple(ed):
            problems.append((f"unit-dimension:{_kind(k)}", {"column": k, "unit": gu, "expected_dims": [str(x) for x in ed]}))
            continue
        tol = max(1e-12, et + gt)
        e, g = ev[ei], gv[gi]
        if not np.allclose(g, e, rtol=tol, atol=0.0):
            j = int(np.argmax(~np.isclose(g, e, rtol=tol, atol=0.0)))
            what = "ghost-or-foreign-value" if (g[j] < 0 and e[j] > 0) else "values"
            problems.append((f"{what}:{_kind(k)}", {"column": k, "row": j, "got": float(g[j]), "expected": float(e[j]), "unit": gu}))
    return problems


def _kind(col):
    base = col.split(".")[0]
    for p in ("position", "velocity", "B_left", "B_right", "B_field", "grav_acceleration", "photon_flux"):
        if base.startswith(p):
            return p
    return base

"""C12 — a level-limited load returns the tree truncated at that level, without holes.

E1 + M1: every tree of the C01 families x every level predicate (l<=k, l<k, l==k, a<l<b, logical_and
form) x {alone, AND value predicate, AND position predicate} x {1 cpu, 2 cpus with ghosts} x
{no other groups, particles and sinks present}.
"""
import numpy as np

from ..models import ramses as M1
from ..runner import Acc, my_share
from . import _load
from . import C01

LEVEL = "exploration"
MOD = "mc.props.C12"


def level_pred(spec):
    kind = spec[0]
    if kind == "le":
        return lambda l: l <= spec[1]
    if kind == "lt":
        return lambda l: l < spec[1]
    if kind == "eq":
        return lambda l: l == spec[1]
    if kind == "between":
        return lambda l: (l > spec[1]) & (l < spec[2])
    if kind == "land":
        return lambda l: np.logical_and(l >= spec[1], l <= spec[2])
    if kind == "in":
        return lambda l: np.isin(l, list(spec[1]))
    if kind == "ne":
        return lambda l: l != spec[1]
    if kind == "or":
        return lambda l: (l == spec[1]) | (l == spec[2])
    raise KeyError(kind)


def level_accepts(spec, l):
    kind = spec[0]
    return {
        "le": lambda: l <= spec[1],
        "lt": lambda: l < spec[1],
        "eq": lambda: l == spec[1],
        "between": lambda: spec[1] < l < spec[2],
        "land": lambda: spec[1] <= l <= spec[2],
        "in": lambda: l in tuple(spec[1]),
        "ne": lambda: l != spec[1],
        "or": lambda: l in (spec[1], spec[2]),
    }[kind]()


def level_specs(L):
    out = []
    for k in range(1, L + 2):
        out.append(("le", k))
        out.append(("lt", k + 1))
        out.append(("eq", k))
    for a in range(0, L + 1):
        for b in range(a + 2, L + 3):
            out.append(("between", a, b))
    for a in range(1, L + 1):
        for b in range(a, L + 2):
            out.append(("land", a, b))
    # predicates that reject a level between two accepted ones: the tree is truncated at the highest accepted level, and the rows
    # of the rejected levels are left out
    import itertools

    for k in range(1, L + 1):
        out.append(("ne", k))
    for r in range(2, L + 1):
        for sub in itertools.combinations(range(1, L + 1), r):
            if sub[-1] - sub[0] + 1 != len(sub):
                out.append(("in", sub))
                if len(sub) == 2:
                    out.append(("or", sub[0], sub[1]))
    # keep those accepting at least one level in 1..L
    seen, res = set(), []
    for s in out:
        if any(level_accepts(s, l) for l in range(1, L + 1)) and s not in seen:
            seen.add(s)
            res.append(s)
    return res


EXTRA = ["none", "density", "position"]
CFGS = [
    {"name": "1cpu"},
    {"name": "2cpu-ghosts", "ncpu": 2, "ghosts": "all", "ordering": "planar"},
    {"name": "1cpu-part-sink", "with_part": True},
]


def build(tree, cfgname):
    base = {k: v[0] for k, v in C01.SPACE.items()}
    extra = next(c for c in CFGS if c["name"] == cfgname)
    cfg = dict(base, **{k: v for k, v in extra.items() if k in base})
    out = C01.make_output(tree, cfg)
    if extra.get("with_part"):
        out.part = M1.make_part(M1.part_descriptor(tree.ndim), [3] * out.ncpu)
        out.sink = M1.make_sink(tree.ndim, 2)
    return out


_L3_DIRS = {}


class _written:
    """the output written to disk: a scratch directory per case, or (for the larger fixed outputs of block W) once per process"""

    def __init__(self, out, cfgname):
        self.out, self.cfgname, self.scratch = out, cfgname, None

    def __enter__(self):
        if self.cfgname.startswith("l3:"):
            if self.cfgname not in _L3_DIRS:
                from ..runner import scratch_dir

                d = scratch_dir()
                self.out.write(d)
                _L3_DIRS[self.cfgname] = d
            return _L3_DIRS[self.cfgname]
        self.scratch = _load.Scratch()
        d = self.scratch.__enter__()
        self.out.write(d)
        return d

    def __exit__(self, *a):
        if self.scratch is not None:
            self.scratch.__exit__(*a)
        return False


def run_case(tree, spec, extra, cfgname, earlier=()):
    """`earlier`: level predicates (or None for a full load) loaded before on the same dataset object"""
    import osyris

    extra, _, form = extra.partition(":")
    others = None
    if form.startswith("others-"):
        others, form = form[len("others-"):], ""
    refused_first = form == "same-dict-after-refusal"
    if refused_first:
        form = ""
    if cfgname.startswith("l3:"):
        from . import C04

        out = C04.build_l3(cfgname[3:])
        tree = out.tree
    else:
        out = build(tree, cfgname)
    L = tree.levelmax
    Lstar = max(l for l in range(1, L + 1) if level_accepts(spec, l))
    sel = {"level": level_pred(spec)}
    holder = None
    if form.startswith("one-callable"):
        # every load of this case (the earlier ones too) is given the SAME function object, which reads the levels to accept from a
        # variable that is changed between the loads
        holder = {"spec": tuple(spec), "fresh_datasets": form.endswith("fresh-datasets")}

        def shared_pred(l):
            return level_pred(tuple(holder["spec"]))(l)

        sel["level"] = shared_pred
        form = ""
    if form:
        # the level predicate given as another kind of callable than a lambda
        from . import C04

        sel["level"] = C04.as_callable(sel["level"], form)
    rows_all = out.expected_mesh(lmax=Lstar)
    rows = [r for r in rows_all if level_accepts(spec, r["level"])]
    if extra == "density":
        vals = sorted(r["density"] for r in rows_all)
        thr = vals[len(vals) // 2] * out.unit_d
        sel["density"] = lambda d: d >= thr * osyris.units("g/cm**3")
        rows = [r for r in rows if r["density"] * out.unit_d >= thr]
    elif extra.startswith("dxmin"):
        # a lower bound on the cell size next to the level criterion: the tree is truncated by the level criterion alone, and the
        # size criterion then filters its leaves (dx of level l is box / 2^l; the bound sits between two levels)
        k = int(extra[5:])
        box = out.boxlen * out.unit_l
        bound = box / 2**k * 0.75
        sel["dx"] = lambda dxs: dxs > bound * osyris.units("cm")
        rows = [r for r in rows if box / 2 ** r["level"] > bound]
    elif extra == "position":
        half = 0.5 * out.boxlen * out.unit_l
        sel["position_x"] = lambda x: x > half * osyris.units("cm")
        rows = [r for r in rows if r["pos"][0] * out.unit_l > half]
    elif extra.startswith("window="):
        # a narrow window on every axis (cells whose centre lies strictly inside), on the lattice of level-3 cells
        i0 = [int(v) for v in extra[7:].split(",")]
        w = i0.pop()
        cm = osyris.units("cm")
        box = out.boxlen * out.unit_l
        for ax, a in zip("xyz"[: tree.ndim], i0):
            lo, hi = (a + 0.0625) / 8.0 * box, (a + w - 0.0625) / 8.0 * box
            sel["position_" + ax] = (lambda lo, hi: (lambda x: (x > lo * cm) & (x < hi * cm)))(lo, hi)
        rows = [r for r in rows if all((a + 0.0625) / 8.0 * box < r["pos"][k] * out.unit_l < (a + w - 0.0625) / 8.0 * box for k, a in enumerate(i0))]
    problems = []
    with _written(out, cfgname) as d:
        try:
            if refused_first:
                # a load that is refused part-way (another criterion of the same dictionary compares a density with a length), then
                # the same dictionary object, corrected, given to load() again
                mesh_sel = dict(sel)
                mesh_sel["density"] = lambda dd: dd > 1.0 * osyris.units("cm")
                whole = {"mesh": mesh_sel}
                ds = _load.new_dataset(d, out.nout)
                try:
                    _load.call_load(ds, select=whole)
                    problems.append(("load-with-incompatible-criterion-not-refused", {}))
                except Exception:
                    pass
                del mesh_sel["density"]
                text = _load.call_load(ds, select=whole)
            elif earlier:
                ds = _load.new_dataset(d, out.nout)
                for e_spec in earlier:
                    if holder is not None and e_spec is not None:
                        holder["spec"] = tuple(e_spec)
                        _load.call_load(ds, select={"mesh": {"level": sel["level"]}})
                        if holder["fresh_datasets"]:
                            ds = _load.new_dataset(d, out.nout)
                        continue
                    _load.call_load(ds, **({} if e_spec is None else {"select": {"mesh": {"level": level_pred(tuple(e_spec))}}}))
                if holder is not None:
                    holder["spec"] = tuple(spec)
                text = _load.call_load(ds, select={"mesh": sel})
            else:
                # other groups named in the same select dictionary, before or after "mesh"
                full_select = {"mesh": sel}
                if others == "after":
                    full_select = {"mesh": sel, "part": {}, "sink": False}
                elif others == "before":
                    full_select = {"sink": {}, "part": False, "mesh": sel}
                elif others == "after-flags":
                    full_select = {"mesh": sel, "part": ["mass"]}
                ds, text = _load.load(d, out.nout, select=full_select)
        except Exception as e:
            import traceback

            if not rows:
                return [], {"rows": 0, "Lstar": Lstar, "L": L}
            return [("load-raised:" + type(e).__name__, {"trace": traceback.format_exc()[-500:]})], {"rows": len(rows), "Lstar": Lstar, "L": L}
    info = {"rows": len(rows), "Lstar": Lstar, "L": L}
    if int(ds.meta.get("lmax", -1)) != Lstar:
        problems.append(("meta-lmax", {"got": int(ds.meta.get("lmax", -1)), "expected": Lstar, "levelmax": L}))
    mesh = ds["mesh"] if "mesh" in ds else None
    if mesh is None or len(mesh) == 0:
        if rows:
            problems.append(("no-mesh-rows", {"expected": len(rows)}))
        return problems, info
    pr = _load.compare_mesh(out, mesh, rows)
    capped = Lstar < L and any(t_l == Lstar for (t_l, _c) in tree.refined)
    for sig, det in pr:
        problems.append((sig + (":cap-below-refinement" if capped else ""), det))
    # explicit tiling check on the 2^Lstar lattice when every level up to Lstar is accepted
    finer = int(np.sum(np.asarray(mesh["level"].values).astype(int) > Lstar)) if "level" in mesh.keys() else 0
    if finer:
        problems.append(("cells-finer-than-the-highest-accepted-level", {"cells": finer, "Lstar": Lstar}))
    elif extra == "none" and all(level_accepts(spec, l) for l in range(1, Lstar + 1)):
        cover = tiling(mesh, out, Lstar)
        if cover is not None and not np.all(cover == 1):
            problems.append(("tiling-holes-or-overlaps" + (":cap-below-refinement" if capped else ""),
                             {"holes": int(np.sum(cover == 0)), "overlaps": int(np.sum(cover > 1)), "Lstar": Lstar}))
    if cfgname.endswith("part-sink") and others is None:
        if "part" not in ds or "sink" not in ds:
            problems.append(("other-groups-missing", {"groups": list(ds.keys())}))
        elif len(ds["part"]["mass"]) != 3:
            problems.append(("other-groups-changed", {}))
    return problems, info


def tiling(mesh, out, Lstar):
    import osyris

    ndim = out.ndim
    box = out.boxlen * out.unit_l
    n = 2**Lstar
    cover = np.zeros((n,) * ndim, dtype=int)
    try:
        lev = np.asarray(mesh["level"].values).astype(int)
        if ndim == 1:
            p = mesh["position_x"] if "position_x" in mesh else mesh["position"].x
            pos = [np.asarray(p.to("cm").values)]
        else:
            pos = [np.asarray(c.to("cm").values) for c in mesh["position"]._xyz.values()]
    except Exception:
        return None
    for i in range(len(lev)):
        w = 2 ** (Lstar - lev[i])
        if w < 1:
            return None
        sl = []
        for a in range(ndim):
            c = int(np.floor(pos[a][i] / box * 2 ** lev[i]))
            sl.append(slice(c * w, (c + 1) * w))
        cover[tuple(sl)] += 1
    return cover


def scale_tree(thorough):
    """One (cpu, level) block of more than 4096 cells (520 level-5 octs; 8200+ octs in the thorough tier), the
    count not a multiple of a power of two >= 128."""
    import itertools

    ref = []
    for lev in (1, 2, 3):
        ref += [(lev, c) for c in itertools.product(range(2**lev), repeat=3)]
    l4 = list(itertools.product(range(16), repeat=3))
    n4 = 4096 if thorough else 520
    ref += [(4, c) for c in l4[:n4]]
    L = 5
    if thorough:
        # 8205 level-6 octs: 65640 cells in one block
        l5 = [tuple(2 * x for x in c) for c in l4] + [tuple(2 * x + 1 for x in c) for c in l4] + [(2 * c[0] + 1, 2 * c[1], 2 * c[2]) for c in l4[:13]]
        ref += [(5, c) for c in l5]
        L = 6
    return M1.Tree(3, L, ref)


def families(thorough):
    fams = C01.tree_families(thorough, 0)
    if not thorough:
        keep = {"1d-L2", "1d-L3", "2d-L2", "3d-L2", "2d-L3-cap", "3d-L3-cap", "1d-L3-levelmin2"}
        fams = [f for f in fams if f[0] in keep]
        fams = [(lab, trees if len(trees) <= 60 else trees[:: max(1, len(trees) // 40)]) for lab, trees in fams]
    return fams


def cases(thorough):
    # block S: scale. A block of several thousand cells under a predicate (chunked evaluation, buffer growth)
    t = scale_tree(thorough)
    L = t.levelmax
    for spec in (("le", L), ("le", L - 1), ("between", L - 2, L + 1), ("eq", L), ("lt", L)):
        for extra in ("none", "density"):
            yield "scale", t, spec, extra, "1cpu"
    fams = families(thorough)
    # block W: level caps below, at and above levelmin together with a narrow window on every axis, on multi-cpu Hilbert outputs with
    # levelmin 2 and 3 (the cpu pre-selection must open the file of every coarse cell that becomes a leaf under the cap)
    import itertools as _it

    for label in ("3d-lm3-3cpu", "3d-lm2-3cpu") + (("3d-lm3-2cpu",) if thorough else ()):
        for spec in (("le", 1), ("le", 2), ("le", 3), ("between", 0, 3)):
            for w in (1, 2):
                per_axis = range(0, 9 - w) if thorough else ((0, 1, 2, 5, 6) if w == 2 else (0, 3, 4, 7))
                starts = list(_it.product(per_axis, repeat=3))
                for st in starts:
                    yield label, None, spec, "window=%d,%d,%d,%d" % (st + (w,)), "l3:" + label
    # block H: the same dataset loaded before with another highest level (or completely): the cap is per call
    for label, trees in fams:
        sel = [t for t in trees if t.levelmax >= 2 and any(l < t.levelmax for (l, _c) in t.refined)][:: max(1, len(trees) // 6)][:6]
        for t in sel:
            L = t.levelmax
            for earlier, spec in (([None], ("le", L - 1)), ([["le", L - 1]], ("le", L)), ([["le", 1]], ("between", 0, L + 1)), ([["le", L]], ("le", 1)),
                                  ([None, ["le", 1]], ("le", L - 1)), ([["eq", L]], ("le", L - 1))):
                yield label, t, spec, "none", "1cpu", earlier
                if any(e is not None for e in earlier):
                    yield label, t, spec, "none:one-callable", "1cpu", earlier
                    yield label, t, spec, "none:one-callable-fresh-datasets", "1cpu", earlier
    # the level predicate next to entries for other groups in the select dictionary (output with particles and sinks)
    for others in ("after", "before", "after-flags"):
        for label, trees in fams:
            for t in [t for t in trees if any(l < t.levelmax for (l, _c) in t.refined)][:: max(1, len(trees) // 5)][:5]:
                for spec in level_specs(t.levelmax)[::3]:
                    yield label, t, spec, "none:others-" + others, "1cpu-part-sink"
    for label, trees in fams:
        for t in [t for t in trees if any(l < t.levelmax for (l, _c) in t.refined)][:: max(1, len(trees) // 4)][:4]:
            for spec in level_specs(t.levelmax)[::4]:
                yield label, t, spec, "none:same-dict-after-refusal", "1cpu"
            for spec in level_specs(t.levelmax)[::2]:
                for k in range(1, t.levelmax + 1):
                    yield label, t, spec, "dxmin%d" % k, "1cpu"
    for form in ("partial", "callable-object", "bound-method", "def"):
        for label, trees in fams[:3]:
            for t in trees[:: max(1, len(trees) // 3)][:3]:
                for spec in level_specs(t.levelmax)[::2]:
                    yield label, t, spec, "none:" + form, "1cpu"
    for label, trees in fams:
        big = len(trees) > 300
        if thorough and len(trees) > 2000:
            trees = trees[::4]  # the 4133-tree 3-D family is thinned in the thorough tier (reported in the evidence)
        for t in trees:
            for spec in level_specs(t.levelmax):
                for extra in EXTRA:
                    for cfg in CFGS:
                        if extra != "none" and cfg["name"] != "1cpu" and not thorough:
                            continue
                        # large families: every tree and level predicate, with the extras and configurations one at a time
                        if big and extra != "none" and cfg["name"] != "1cpu":
                            continue
                        if big and spec[0] in ("lt", "land") and (extra != "none" or cfg["name"] != "1cpu"):
                            continue
                        yield label, t, spec, extra, cfg["name"]


def work(payload):
    acc = Acc()
    thorough = payload["tier"] == "thorough"
    for idx, item in my_share(cases(thorough), payload):
        label, t, spec, extra, cfgname = item[:5]
        earlier = item[5] if len(item) > 5 else ()
        problems, info = run_case(t, spec, extra, cfgname, earlier)
        if t is None:
            from . import C04

            t = C04.build_l3(cfgname[3:]).tree
        acc.case(nontrivial=info.get("Lstar", 0) < info.get("L", 0) or not extra.startswith("none"), outcome="ok" if not problems else "violation")
        if info.get("Lstar", 0) < info.get("L", 0):
            acc.count("capped_below_levelmax")
        for sig, det in problems:
            acc.violation("C12:" + sig + (":after-earlier-loads-on-the-dataset" if earlier else ""), idx,
                          {"tree": t.describe(), "spec": list(spec), "extra": extra, "cfg": cfgname, "earlier": [None if e is None else list(e) for e in earlier]}, det)
        if idx % 499 == 0:
            acc.sample({"tree": t.describe(), "level_predicate": list(spec), "extra": extra, "cfg": cfgname, "rows": info.get("rows")})
    return acc


def run(ctx):
    acc = Acc.merged(ctx.pool.shards(MOD, "work", ctx.base(), nshards=ctx.pool.n * 4))
    cov = {
        "evaluations": acc.evaluations,
        "distinct_nontrivial": acc.nontrivial,
        "rule": "product: trees of the C01 families x every level predicate of 5 forms with thresholds up to levelmax+1 (those "
        "accepting some level) x {alone, AND density, AND position_x} x {1 cpu, 2 cpus with ghosts, particles+sinks present}; "
        "non-trivial = the cap lies below levelmax or another predicate is ANDed",
        "samples": acc.samples,
        "exhaustive": True,
        "capped_below_levelmax": acc.counters.get("capped_below_levelmax", 0),
        "tree_families": {lab: len(t) for lab, t in families(ctx.thorough)},
        "outcomes": dict(acc.outcomes),
    }
    return {"level": LEVEL, "coverage": cov, "violations": acc.violation_list(), "errors": acc.errors,
            "assumptions": ["M1 writer as in C01", "predicates accepting no level in 1..levelmax are outside the statement"]}


def replay_sigs(case):
    earlier = case.get("earlier") or ()
    problems, _ = run_case(None if case["cfg"].startswith("l3:") else C01.tree_from(case["tree"]), tuple(case["spec"]), case["extra"], case["cfg"], earlier)
    return ["C12:" + s + (":after-earlier-loads-on-the-dataset" if earlier else "") for s, _ in problems]

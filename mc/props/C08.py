"""C08 — unit conversion preserves the physical quantity; defined units have true values.

E1 + M2: every ordered pair of units within each family (incl. every unit osyris defines) x dtypes x
shapes, round trips, chains a->b->c vs a->c, incompatible pairs, 1/2/3-component Vectors; the
catalogue of osyris' constants against independently written IAU/CODATA values; equivalent
spellings; the 8 subsets of user-provided configuration objects, each in its own process.
"""
import itertools
import json
import os
import subprocess
import sys

import numpy as np

from ..models import units as M2
from ..runner import Acc, my_share, scratch_dir, repo_root, VERIF_DIR
from . import _arr

LEVEL = "exploration"
MOD = "mc.props.C08"

FAMS = {
    "length": ["cm", "m", "km", "au", "pc", "kpc", "ly", "R_sun", "R_earth", "R_jup", "solar_radius", "R_sol"],
    "mass": ["g", "kg", "M_sun", "M_earth", "M_jup", "solar_mass", "M_sol"],
    "time": ["s", "yr", "day", "kyr", "Myr"],
    "velocity": ["cm/s", "km/s", "au/yr", "pc/Myr"],
    "density": ["g/cm**3", "kg/m**3", "M_sun/pc**3", "M_earth/R_earth**3"],
    "energy": ["erg", "J", "eV", "keV", "L_sun*s", "g*cm**2/s**2"],
    "luminosity": ["erg/s", "W", "L_sun", "L_bol0", "solar_luminosity", "L_sol"],
    "radiation": ["erg/cm**3/K**4", "ar", "radiation_constant", "J/m**3/K**4"],
    "dimensionless": ["dimensionless", "cm/m", "percent", "ppm", "rad", "deg"],
    # pint ships optional "contexts" that make temperature <-> energy (boltzmann) or length <-> frequency <-> energy
    # (spectroscopy) interconvertible; osyris must keep them distinct dimensions
    "temperature": ["K", "mK"],
    "frequency": ["Hz", "1/s", "1/yr"],
    # (and the "Gaussian" context relates SI and Gaussian electromagnetic quantities)
    "magnetic_gaussian": ["G", "mG", "statV/cm"],
    "magnetic_SI": ["T", "Wb/m**2"],
    "electric_SI": ["V/m"],
    "capacitance": ["F"],
    "resistance": ["ohm", "V/A"],
    "current": ["A", "C/s"],
}
QUICK = {k: v[: (6 if k in ("length", "mass", "luminosity") else 4)] for k, v in FAMS.items()}


def cases(thorough):
    fams = FAMS if thorough else QUICK
    for fam, us in fams.items():
        for u1, u2 in itertools.product(us, us):
            for dt in ("f8", "f4", "i8"):
                for sh in ("3", "0d", "2x3"):
                    if not thorough and sh != "3" and dt != "f8":
                        continue
                    yield {"block": "pair", "u1": u1, "u2": u2, "dt": dt, "shape": sh}
            for nvec in (1, 2, 3):
                yield {"block": "vector", "u1": u1, "u2": u2, "nvec": nvec}
            # Vectors whose components live in one array in another arrangement than (component, row): rows of a (3, N) array
            # taken in another order, reversed and strided views, the components of a converted Vector exchanged or reversed
            if u1 != u2:
                for layout in ("rows-z-first", "reversed-views", "strided-views", "columns-of-N-by-3", "converted-then-reversed", "converted-then-exchanged"):
                    yield {"block": "vector", "u1": u1, "u2": u2, "nvec": 3, "layout": layout}
        for u1, u2, u3 in itertools.product(us[:4], us, us[-3:]):
            yield {"block": "chain", "u1": u1, "u2": u2, "u3": u3}
    names = list(fams)
    dims = {f: tuple(_arr.uinfo(fams[f][0])[1]) for f in names}
    assert len(set(dims.values())) == len(names), "harness: two unit families share a dimension"
    for f1, f2 in itertools.permutations(names, 2):
        for u1 in fams[f1][:2]:
            for u2 in fams[f2][-2:]:
                yield {"block": "incompatible", "u1": u1, "u2": u2}
    for canon, aliases in M2.OSYRIS_CATALOGUE.items():
        yield {"block": "catalogue", "canonical": canon, "aliases": aliases}
    for a, b in [("cm/s", "cm*s**-1"), ("g/cm**3", "g*cm**-3"), ("M_sun", "solar_mass"), ("M_sun", "M_sol"), ("erg", "g*cm**2/s**2"),
                 ("m", "meter"), ("yr", "year"), ("km/s", "kilometer/second"), ("", "dimensionless")]:
        yield {"block": "spelling", "a": a, "b": b}
    # unit strings that differ only by white space but mean different things (a space is a product): each must be
    # parsed for what it says, whatever was requested before it in the same process
    for a, b in [("m K", "mK"), ("m s", "ms"), ("m in", "min"), ("m G", "mG"), ("k g", "kg")]:
        yield {"block": "spelling_sequence", "seq": [a, b]}
        yield {"block": "spelling_sequence", "seq": [b, a]}
        yield {"block": "spelling_sequence", "seq": [a, b, a]}
    yield {"block": "unit_passthrough"}
    yield {"block": "quantity_rejected"}
    # composite units: every product, quotient and power of base units, grouped by dimension (computed with M2); every ordered
    # pair inside a group (neighbours only in groups of more than 14 expressions)
    for u1, u2 in composite_pairs(thorough):
        yield {"block": "pair", "u1": u1, "u2": u2, "dt": "f8", "shape": "3"}


_COMPOSITE = {}


def composite_pairs(thorough):
    key = bool(thorough)
    if key in _COMPOSITE:
        return _COMPOSITE[key]
    bases = ["cm", "km", "au", "pc", "g", "M_sun", "s", "yr", "K", "erg", "eV", "G"]
    if thorough:
        bases += ["m", "kg", "Myr", "J", "L_sun", "dyn", "N", "Pa", "Hz", "W", "mG", "R_sun", "M_earth", "day"]
    exprs = list(bases)
    for a in bases:
        for b in bases:
            exprs.append(f"{a}*{b}")
            if a != b:
                exprs.append(f"{a}/{b}")
        exprs += [f"{a}**2", f"{a}**-1", f"{a}**3"]
    groups = {}
    for e in exprs:
        try:
            d = tuple(_arr.uinfo(e)[1])
        except Exception:
            continue
        groups.setdefault(d, []).append(e)
    pairs = []
    for d, es in sorted(groups.items(), key=lambda kv: str(kv[0])):
        es = sorted(set(es))
        if len(es) < 2:
            continue
        if len(es) <= 14:
            pairs += [(a, b) for a in es for b in es if a != b]
        else:
            n = len(es)
            for i, a in enumerate(es):
                for k in (1, 2, 3, n // 2):
                    pairs.append((a, es[(i + k) % n]))
                    pairs.append((es[(i + k) % n], a))
    _COMPOSITE[key] = sorted(set(pairs))
    return _COMPOSITE[key]


def dims_compatible(u1, u2):
    return tuple(_arr.uinfo(u1)[1]) == tuple(_arr.uinfo(u2)[1])


def run_case(acc, idx, c):
    import osyris

    A_, V_ = osyris.Array, osyris.Vector
    blk = c["block"]
    if blk == "pair":
        dt = _arr.DTYPES[c["dt"]]
        v = _arr.values_for(_arr.SHAPES[c["shape"]], dt, 1, 0)
        a = A_(v, unit=c["u1"])
        bad = _arr.label_mismatch(a.unit, c["u1"]) or _arr.label_mismatch(osyris.units(c["u2"]), c["u2"])
        if bad:
            # the unit the library made of the string is not the unit the string names: every conversion from or to it is off
            acc.violation("C08:unit-string-read-as-another-unit", idx, c, bad)
            return "wrong-unit-of-string", True
        sa = _arr.snapshot(a)
        P, dP, tP = _arr.phys(a)
        try:
            b = a.to(c["u2"])
        except Exception as e:
            acc.violation(f"C08:to-raised-for-compatible-units:{type(e).__name__}", idx, c, {})
            return "raises-unexpected", True
        if _arr.snapshot(a) != sa:
            acc.violation("C08:to-modified-source", idx, c, {})
        Q, dQ, tQ = _arr.phys(b)
        s2, d2, t2 = _arr.uinfo(c["u2"])
        if tuple(dQ) != tuple(dP) or tuple(M2.unit_info(b.unit)[1]) != tuple(d2):
            acc.violation("C08:to-wrong-unit", idx, c, {"unit": str(b.unit)})
            return "wrong-unit", True
        tol = _arr.eps_for(dt) + tP + tQ
        # a value that the element type cannot hold in the target unit (float32 under/overflow, e.g. eV -> L_sun*s is a
        # factor 4e-46) is not a conversion error: only representable results are compared
        if np.issubdtype(b.dtype, np.floating):
            fi = np.finfo(b.dtype)
            want_num = np.abs(np.asarray(P, dtype=np.float64) / s2)
            if np.any((want_num != 0) & ((want_num < fi.tiny * 1e3) | (want_num > fi.max / 1e3))):
                return "skipped-result-not-representable-in-dtype", False
        if not _arr.close(Q, P, tol):
            acc.violation("C08:to-changed-physical-value", idx, c, {"before_cgs": np.ravel(P)[:3].tolist(), "after_cgs": np.ravel(Q)[:3].tolist(), "unit": str(b.unit)})
            return "wrong-value", True
        # values must be scaled by the exact ratio (tighter than the constants' uncertainty when both
        # units are exact)
        if tP == 0 and t2 == 0:
            s1 = _arr.uinfo(c["u1"])[0]
            if not _arr.close(np.asarray(b.values, dtype=float), v.astype(float) * (s1 / s2), _arr.eps_for(dt)):
                acc.violation("C08:to-inexact-ratio", idx, c, {})
        # round trip
        try:
            back = b.to(c["u1"])
            if not _arr.close(np.asarray(back.values, dtype=float), v.astype(float), max(4e-15, _arr.eps_for(dt) if dt == np.float32 else 4e-15) * 4):
                acc.violation("C08:round-trip-not-identity", idx, c, {"got": np.ravel(back.values)[:3].tolist(), "want": v.ravel()[:3].tolist()})
                return "roundtrip", True
            if str(back.unit) != str(a.unit) and tuple(M2.unit_info(back.unit)) != tuple(M2.unit_info(a.unit)):
                acc.violation("C08:round-trip-unit", idx, c, {})
        except Exception as e:
            acc.violation(f"C08:round-trip-raised:{type(e).__name__}", idx, c, {})
        return "ok", c["u1"] != c["u2"]
    if blk == "vector":
        n = c["nvec"]
        comps = [np.array([1.0, -2.0, 3.5]) * (i + 1) for i in range(n)]
        vec = V_(*comps, unit=c["u1"])
        layout = c.get("layout")
        if layout:
            block = np.array([[1.0, -2.0, 3.5, 8.0], [2.5, 7.0, -1.0, 4.0], [6.0, 0.5, 9.0, -3.0]])
            if layout == "rows-z-first":
                vec = V_(block[2], block[1], block[0], unit=c["u1"])
            elif layout == "reversed-views":
                vec = V_(block[0][::-1], block[1][::-1], block[2][::-1], unit=c["u1"])
            elif layout == "strided-views":
                vec = V_(block[0][::2], block[1][1::2], block[2][::-2], unit=c["u1"])
            elif layout == "columns-of-N-by-3":
                nb3 = np.ascontiguousarray(block.T[:, :3])
                vec = V_(nb3[:, 0], nb3[:, 1], nb3[:, 2], unit=c["u1"])
            else:
                # an intermediate unit of the same family: the components of the result of a conversion, rearranged
                mid = V_(block[0].copy(), block[1].copy(), block[2].copy(), unit=c["u2"]).to(c["u1"])
                vec = mid[::-1] if layout == "converted-then-reversed" else V_(x=mid.y, y=mid.z, z=mid.x)
            comps = [np.array(cc.values, dtype=np.float64) for cc in vec._xyz.values()]
        bad = _arr.label_mismatch(vec.unit, c["u1"]) or _arr.label_mismatch(osyris.units(c["u2"]), c["u2"])
        if bad:
            acc.violation("C08:unit-string-read-as-another-unit:vector", idx, c, bad)
            return "wrong-unit-of-string", True
        sv = _arr.snapshot(vec)
        try:
            w = vec.to(c["u2"])
        except Exception as e:
            acc.violation(f"C08:vector-to-raised:{type(e).__name__}", idx, c, {})
            return "raises-unexpected", True
        if _arr.snapshot(vec) != sv:
            acc.violation("C08:vector-to-modified-source", idx, c, {})
        if w.nvec != n:
            acc.violation("C08:vector-to-changed-component-count", idx, c, {})
            return "bad", True
        for comp, orig in zip(w._xyz.values(), comps):
            ref = A_(orig.copy(), unit=c["u1"]).to(c["u2"])
            if str(comp.unit) != str(ref.unit) or not np.array_equal(np.asarray(comp.values), np.asarray(ref.values)):
                acc.violation("C08:vector-to-differs-from-component-conversion", idx, c, {})
                return "bad", True
        return "ok", c["u1"] != c["u2"]
    if blk == "chain":
        v = np.array([1.0, 2.5, -4.0])
        a = A_(v, unit=c["u1"])
        try:
            x = a.to(c["u2"]).to(c["u3"])
            y = a.to(c["u3"])
        except Exception as e:
            acc.violation(f"C08:chain-raised:{type(e).__name__}", idx, c, {})
            return "raises-unexpected", True
        if not _arr.close(np.asarray(x.values), np.asarray(y.values), 1e-14):
            acc.violation("C08:conversion-chain-does-not-commute", idx, c, {"via": np.asarray(x.values).tolist(), "direct": np.asarray(y.values).tolist()})
            return "bad", True
        return "ok", len({c["u1"], c["u2"], c["u3"]}) == 3
    if blk == "incompatible":
        a = A_(np.array([1.0, 2.0]), unit=c["u1"])
        sa = _arr.snapshot(a)
        try:
            r = a.to(c["u2"])
            acc.violation("C08:to-incompatible-unit-did-not-raise", idx, c, {"result_unit": str(r.unit)})
            return "no-raise", True
        except Exception:
            pass
        if _arr.snapshot(a) != sa:
            acc.violation("C08:failed-to-modified-source", idx, c, {})
        try:
            V_(np.array([1.0]), np.array([2.0]), unit=c["u1"]).to(c["u2"])
            acc.violation("C08:vector-to-incompatible-unit-did-not-raise", idx, c, {})
        except Exception:
            pass
        return "raises", True
    if blk == "catalogue":
        canon = c["canonical"]
        want, dims, tol = M2.TABLE[canon]
        cgs_unit = {"solar_mass": "g", "earth_mass": "g", "jupiter_mass": "g", "solar_radius": "cm", "earth_radius": "cm", "jupiter_radius": "cm",
                    "solar_luminosity": "erg/s", "bolometric_luminosity": "erg/s", "radiation_constant": "erg/cm**3/K**4"}[canon]
        for name in [canon] + list(c["aliases"]):
            try:
                u = osyris.units(name)
                val = float(A_(1.0, unit=name).to(cgs_unit).values)
            except Exception as e:
                acc.violation(f"C08:catalogue-unit-unusable:{canon}", idx, c, {"name": name, "error": repr(e)[:100]})
                continue
            if not np.isclose(val, want, rtol=tol, atol=0):
                acc.violation(f"C08:catalogue-value:{canon}", idx, c, {"name": name, "got_cgs": val, "accepted_cgs": want, "rtol": tol})
            if u != osyris.units(canon):
                acc.violation(f"C08:alias-is-a-different-unit:{canon}", idx, c, {"name": name})
        return "ok", True
    if blk == "spelling":
        try:
            ua, ub = osyris.units(c["a"]), osyris.units(c["b"])
        except Exception as e:
            acc.violation("C08:spelling-unusable", idx, c, {"error": repr(e)[:100]})
            return "bad", True
        same = ua == ub
        if not same:
            # pint may keep different but equivalent containers: fall back to conversion factor 1
            try:
                f = float(A_(1.0, unit=ua).to(ub).values)
                same = abs(f - 1.0) < 1e-15 and tuple(M2.unit_info(ua)[1]) == tuple(M2.unit_info(ub)[1])
            except Exception:
                same = False
        if not same:
            acc.violation("C08:equivalent-spellings-give-different-units", idx, c, {"a": str(ua), "b": str(ub)})
            return "bad", True
        return "ok", True
    if blk == "spelling_sequence":
        want = {"m K": (100.0, M2.dims_of(cm=1, K=1)), "mK": (1e-3, M2.dims_of(K=1)), "m s": (100.0, M2.dims_of(cm=1, s=1)),
                "ms": (1e-3, M2.dims_of(s=1)), "m in": (254.0, M2.dims_of(cm=2)), "min": (60.0, M2.dims_of(s=1)),
                "m G": (100.0, tuple(x + y for x, y in zip(M2.dims_of(cm=1), M2.GAUSS))), "mG": (1e-3, M2.GAUSS),
                "k g": None, "kg": (1000.0, M2.dims_of(g=1))}
        for step, name in enumerate(c["seq"]):
            exp = want[name]
            try:
                u = osyris.units(name)
                sc, dm, _ = M2.unit_info(u)
            except Exception as e:
                if exp is None:
                    continue  # "k g" is not a unit expression pint understands: any refusal is fine
                acc.violation("C08:unit-string-unusable", idx, c, {"name": name, "error": repr(e)[:100]})
                return "bad", True
            if exp is None:
                continue
            if tuple(dm) != tuple(exp[1]) or not np.isclose(sc, exp[0], rtol=1e-12):
                acc.violation("C08:unit-string-parsed-as-another-unit" + (":after-earlier-requests" if step else ""), idx, c,
                              {"name": name, "got": str(u), "step": step})
                return "bad", True
        return "ok", True
    if blk == "unit_passthrough":
        u = osyris.units("km")
        if osyris.units(u) is not u and osyris.units(u) != u:
            acc.violation("C08:unit-passthrough", idx, c, {})
        a = A_(np.array([1.0]), unit=u)
        if not np.isclose(float(a.to(osyris.units("m")).values[0]), 1000.0, rtol=1e-15):
            acc.violation("C08:unit-object-conversion", idx, c, {})
        return "ok", True
    if blk == "quantity_rejected":
        try:
            osyris.units(1.0 * osyris.units("m"))
            acc.violation("C08:units-accepts-quantity", idx, c, {})
        except TypeError:
            pass
        return "ok", True
    raise KeyError(blk)


# ------------------------------------------------------------ configuration subsets

USER_OBJECTS = {
    "configure_constants": '''
def configure_constants(units):
    units.define("solar_mass = 2.0e+33 * g = M_sun = M_sol")
    units.define("verifoo = 3.0 * cm = vfoo")
''',
    "configure_units": '''
def configure_units(units, unit_d, unit_l, unit_t):
    return {"density": 7.0 * unit_d * units("g / cm**3"), "marker": 1.0 * units("s")}
''',
    "additional_variables": '''
def additional_variables(data):
    data.meta["user_additional_variables_called"] = True
''',
}

PROBE = r'''
import json, sys, os
sys.path.insert(0, sys.argv[1])
import osyris
cfg = sys.modules["osyris.config"]
out = {}
try:
    out["M_sun_g"] = float(osyris.Array(1.0, unit="M_sun").to("g").values)
except Exception as e:
    out["M_sun_g"] = "ERR " + repr(e)
try:
    out["vfoo_cm"] = float(osyris.Array(1.0, unit="vfoo").to("cm").values)
except Exception as e:
    out["vfoo_cm"] = None
try:
    out["R_sun_cm"] = float(osyris.Array(1.0, unit="R_sun").to("cm").values)
except Exception as e:
    out["R_sun_cm"] = None
lib = osyris.config.configure_units(osyris.units, 2.0, 3.0, 5.0)
out["lib_density"] = float(lib["density"].magnitude)
out["lib_has_marker"] = "marker" in lib
out["lib_has_velocity"] = "velocity" in lib
ds = osyris.Dataset()
ds["mesh"] = osyris.Datagroup({"density": osyris.Array([1.0, 2.0], unit="g/cm**3"), "dx": osyris.Array([1.0, 1.0], unit="cm")})
osyris.config.additional_variables(ds)
out["mass_computed"] = "mass" in ds["mesh"]
out["user_addvar_called"] = bool(ds.meta.get("user_additional_variables_called", False))
out["stale_called"] = bool(ds.meta.get("stale_copy_called", False))
out["user_file"] = os.path.realpath(cfg.user_config.__file__)
print("PROBE" + json.dumps(out))
'''


STALE_COPY = '''
# an older copy of the configuration kept next to the real one: it is not the user configuration and must be ignored
def configure_constants(units):
    units.define("solar_mass = 3.0e+33 * g = M_sun = M_sol")


def configure_units(units, unit_d, unit_l, unit_t):
    return {"density": 99.0 * units("g / cm**3")}


def additional_variables(data):
    data.meta["stale_copy_called"] = True
'''
SURROUNDINGS = ["plain", "stale-copies-in-config-dir", "look-alike-in-cwd"]


def config_case(subset, surroundings="plain"):
    """Run osyris in a fresh process whose ~/.osyris/config_osyris.py defines exactly `subset`."""
    home = scratch_dir()
    os.makedirs(os.path.join(home, ".osyris"))
    with open(os.path.join(home, ".osyris", "config_osyris.py"), "w") as f:
        f.write("# user configuration written by the C08 check\n")
        for name in subset:
            f.write(USER_OBJECTS[name])
    cwd = scratch_dir()
    if surroundings == "stale-copies-in-config-dir":
        for fn in ("config_osyris_old.py", "config_osyris2.py", "config_osyris_backup.py", "config_osyris.py.bak", "zz_config_osyris.py"):
            with open(os.path.join(home, ".osyris", fn), "w") as f:
                f.write(STALE_COPY)
    elif surroundings == "look-alike-in-cwd":
        # files in the working directory that are not the user configuration either
        for fn in ("config_osyris_old.py", "defaults.py", "units.py"):
            with open(os.path.join(cwd, fn), "w") as f:
                f.write(STALE_COPY)
    env = dict(os.environ, HOME=home)
    p = subprocess.run([sys.executable, "-c", PROBE, os.path.join(repo_root(), "src")], env=env, cwd=cwd, capture_output=True, text=True, timeout=300)
    line = [l for l in p.stdout.splitlines() if l.startswith("PROBE")]
    if not line:
        return None, (p.stdout + p.stderr)[-600:]
    return json.loads(line[0][5:]), None


def config_work(payload):
    acc = Acc()
    names = list(USER_OBJECTS)
    subsets = [(tuple(n for i, n in enumerate(names) if mask >> i & 1), sur) for mask in range(8) for sur in SURROUNDINGS]
    for idx, (subset, sur) in my_share(subsets, payload):
        c = {"block": "config", "user_defines": list(subset), "surroundings": sur}
        out, err = config_case(subset, sur)
        acc.case(nontrivial=len(subset) > 0, outcome="ok" if out else "error")
        if out is None:
            acc.violation("C08:config-subset-import-failed", idx, c, {"output": err})
            continue
        problems = []
        if "configure_constants" in subset:
            if out["M_sun_g"] != 2.0e33 or out["vfoo_cm"] != 3.0:
                problems.append("user-configure_constants-not-used")
        else:
            if not (isinstance(out["M_sun_g"], float) and abs(out["M_sun_g"] / 1.98841e33 - 1) < 1e-3) or out["vfoo_cm"] is not None or out["R_sun_cm"] is None:
                problems.append("default-configure_constants-not-used")
        if "configure_units" in subset:
            if out["lib_density"] != 14.0 or not out["lib_has_marker"]:
                problems.append("user-configure_units-not-used")
        else:
            if out["lib_density"] != 2.0 or out["lib_has_marker"] or not out["lib_has_velocity"]:
                problems.append("default-configure_units-not-used")
        if out.get("stale_called"):
            problems.append("stale-copy-used")
        if "additional_variables" in subset:
            if not out["user_addvar_called"] or out["mass_computed"]:
                problems.append("user-additional_variables-not-used")
        else:
            if out["user_addvar_called"] or not out["mass_computed"]:
                problems.append("default-additional_variables-not-used")
        for p in problems:
            acc.violation("C08:config:" + p, idx, c, out)
        acc.sample(c)
    return acc


def work(payload):
    acc = Acc()
    thorough = payload["tier"] == "thorough"
    for idx, c in my_share(cases(thorough), payload):
        out, nontrivial = run_case(acc, idx, c)
        acc.case(nontrivial=nontrivial, outcome=out)
        acc.count("block:" + c["block"])
        if idx % 3001 == 0:
            acc.sample(c)
    return acc


def run(ctx):
    acc = Acc.merged(ctx.pool.shards(MOD, "work", ctx.base()) + ctx.pool.shards(MOD, "config_work", ctx.base(), nshards=24))
    cov = {
        "evaluations": acc.evaluations,
        "distinct_nontrivial": acc.nontrivial,
        "rule": "product: ordered unit pairs within 9 families x dtypes x shapes (+ vectors of 1-3 components, chains a->b->c vs a->c, "
        "incompatible pairs across families); every name and alias of the 9 constants osyris defines; spellings; the 8 subsets of user "
        "configuration objects, each in a fresh process. non-trivial = source and target unit differ",
        "samples": acc.samples,
        "exhaustive": True,
        "families": FAMS if ctx.thorough else QUICK,
        "blocks": dict(acc.counters),
        "outcomes": dict(acc.outcomes),
    }
    return {"level": LEVEL, "coverage": cov, "violations": acc.violation_list(), "errors": acc.errors,
            "assumptions": ["M2 table: IAU 2015 nominal values / CODATA 2018, compared to 1e-3 (masses) or 1e-4 relative: a wrong digit beyond "
                            "that resolution is not detected", "pint parses unit expressions"]}


def replay_sigs(case):
    acc = Acc()
    if case["block"] == "config":
        a2 = Acc()
        names = list(USER_OBJECTS)
        subset = tuple(case["user_defines"])
        mask = sum(1 << names.index(n) for n in subset)
        res = config_work({"shard": mask * len(SURROUNDINGS) + SURROUNDINGS.index(case.get("surroundings", "plain")), "nshards": 8 * len(SURROUNDINGS), "tier": "quick"})
        return list(res.violations.keys())
    run_case(acc, 0, case)
    return list(acc.violations.keys())

"""C20 — Datagroup and Dataset behave as insertion-ordered dictionaries; equality by content.

E2: BFS over histories of mutating dictionary operations on a live Datagroup / Dataset,
every transition compared with a plain-dict reference model (return value, exception
presence, full read-only observation after the step).
E1: product of a catalogue of Datagroups with itself, `==` verdict vs element-wise
equality after conversion computed from raw numbers.
"""
import itertools

import numpy as np

from ..engines import history
from ..runner import Acc, my_share

LEVEL = "model_checking"
MOD = "mc.props.C20"

KEYS = ["a", "flux", "p_x"]  # keys that end in x or _x are ordinary keys (no component suffix is to be stripped)

# value kinds: (ctor name, shape, description); fresh object per use
KINDS = ["A3m", "A3s_i8", "V3_3", "A2m", "S0", "A1m", "V2_3"]


def make_value(kind, tag=0):
    import osyris

    A, V = osyris.Array, osyris.Vector
    if kind == "A3m":
        return A(np.array([1.0, 2.0, 3.0]) + tag, unit="m")
    if kind == "A3s_i8":
        return A(np.array([4, 5, 6], dtype=np.int64) + tag, unit="s")
    if kind == "V3_3":
        return V(np.array([1.0, 2, 3]) + tag, np.array([4.0, 5, 6]), np.array([7.0, 8, 9]), unit="cm")
    if kind == "V2_3":
        return V(np.array([1.0, 2, 3]) + tag, np.array([4.0, 5, 6]), unit="km")
    if kind == "A2m":
        return A(np.array([1.0, 2.0]) + tag, unit="m")
    if kind == "A1m":
        return A(np.array([1.0]) + tag, unit="m")
    if kind == "S0":
        return A(np.float64(5.0 + tag), unit="kg")
    raise KeyError(kind)


SHAPE = {"A3m": (3,), "A3s_i8": (3,), "V3_3": (3,), "V2_3": (3,), "A2m": (2,), "A1m": (1,), "S0": ()}


def describe_member(v):
    """Canonical description of an Array/Vector (everything a later op can observe)."""
    import osyris

    if isinstance(v, osyris.Vector):
        return ["V", v.name, [describe_member(c) for c in v._xyz.values()]]
    if isinstance(v, osyris.Array):
        return ["A", v.name, str(v.unit), str(v.dtype), list(v.shape), np.asarray(v._array).tolist()]
    return ["other", repr(v)]


# ---------------------------------------------------------------- Datagroup spec


class DgModel:
    """Reference: an insertion-ordered dict key -> (kind, tag) with a shape gate."""

    def __init__(self):
        self.d = {}

    def shapes_of_others(self, key):
        return [SHAPE[k] for kk, (k, _) in self.d.items() if kk != key]

    def set_expect(self, key, kind):
        """-> 'accept' | 'reject' | 'either'"""
        if not self.d:
            return "accept"
        first_key = next(iter(self.d))
        first_shape = SHAPE[self.d[first_key][0]]
        others = self.shapes_of_others(key)
        new = SHAPE[kind]
        if first_shape == ():
            # scalar group: the statement only constrains non-scalar groups
            return "either" if any(s != new for s in others) or not others else "accept"
        if not others:
            # replacing the only member: either outcome is allowed if the shape changes
            return "accept" if new == first_shape else "either"
        if all(s == new for s in others):
            return "accept"
        return "reject"


class Box:
    def __init__(self, obj):
        self.obj = obj


class DatagroupSpec:
    def __init__(self, params):
        kinds = params["kinds"]
        ops = []
        for k in params["keys"]:
            for kind in kinds:
                ops.append(["set", k, kind])
        for k in params["keys"]:
            ops.append(["del", k])
            ops.append(["pop", k])
        ops.append(["clear"])
        ops.append(["copy_and_continue"])
        ks = params["keys"]
        ops.append(["update", [[ks[0], kinds[0]], [ks[1], kinds[1]]]])
        ops.append(["update", [[ks[1], kinds[0]], [ks[0], kinds[3 % len(kinds)]]]])
        ops.append(["update_kwargs", [[ks[-1], kinds[2 % len(kinds)]]]])
        ops.append(["ctor_from_dict", [[ks[0], kinds[0]], [ks[1], kinds[1]]]])
        # the same pairs handed over as other things dict() accepts: a list of pairs and single-pass iterators
        for form in ("pairs-list", "zip", "generator", "items-view"):
            ops.append(["update", [[ks[0], kinds[0]], [ks[1], kinds[1]]], form])
            ops.append(["ctor_from_dict", [[ks[0], kinds[0]], [ks[1], kinds[1]]], form])
        self.ops = ops
        self.keys = ks
        self.ntag = 0

    @staticmethod
    def as_arg(d, form):
        if form == "pairs-list":
            return list(d.items())
        if form == "zip":
            return zip(list(d.keys()), list(d.values()))
        if form == "generator":
            return ((k, v) for k, v in list(d.items()))
        if form == "items-view":
            return d.items()
        return d

    def fresh(self):
        import osyris

        self.ntag = 0
        return Box(osyris.Datagroup()), DgModel()

    def canon(self, impl):
        g = impl.obj
        return [[[k, describe_member(g._container[k])] for k in g._container], history.hidden_state(g, ("_container", "name", "parent"))]

    def _tag(self, model=None, key=None):
        # values differ between successive insertions under one key so that a stale value
        # is visible; the tag is a function of the current state (keeps the state space finite
        # and (state, op) -> successor a function)
        prev = model.d.get(key) if model is not None else None
        return 1 if prev is None else prev[1] % 3 + 1

    def _set(self, impl, model, key, kind, problems, via):
        tag = self._tag(model, key)
        val = make_value(kind, tag)
        exp = model.set_expect(key, kind)
        before = self.canon(impl)[0]
        try:
            via(key, val)
            got = "accept"
        except ValueError:
            got = "reject"
        if exp != "either" and got != exp:
            problems.append((f"C20:dg-set-{exp}-expected-got-{got}", {"key": key, "kind": kind}))
        if got == "accept":
            model.d[key] = (kind, tag)
        else:
            if self.canon(impl)[0] != before:
                problems.append(("C20:dg-rejected-insert-changed-group", {"key": key, "kind": kind}))
        return got

    def step(self, impl, model, op):
        import osyris

        g = impl.obj
        problems = []
        ret = None
        name = op[0]
        if name == "set":
            ret = self._set(impl, model, op[1], op[2], problems, lambda k, v: g.__setitem__(k, v))
        elif name in ("del", "pop"):
            key = op[1]
            exp_raise = key not in model.d
            try:
                if name == "del":
                    del g[key]
                    ret = "deleted"
                else:
                    v = g.pop(key)
                    ret = ["popped", describe_member(v)]
                    if not exp_raise:
                        kind, tag = model.d[key]
                        want = describe_member(_named(make_value(kind, tag), key))
                        if ret[1] != want:
                            problems.append(("C20:dg-pop-returned-wrong-value", {"got": ret[1], "want": want}))
                raised = False
            except KeyError:
                raised, ret = True, "KeyError"
            if raised != exp_raise:
                problems.append((f"C20:dg-{name}-keyerror-mismatch", {"key": key, "raised": raised}))
            model.d.pop(key, None)
        elif name == "clear":
            g.clear()
            model.d.clear()
        elif name == "copy_and_continue":
            mixed = len({SHAPE[k] for k, _ in model.d.values()}) > 1
            try:
                c = g.copy()
            except ValueError:
                # only a group whose first member was a scalar can hold mixed shapes (the
                # statement leaves scalar groups open; C06 owns that invariant)
                if not mixed:
                    problems.append(("C20:dg-copy-raised", {}))
                c = g
                ret = "copy-raised"
            if ret == "copy-raised":
                pass
            elif c is g or c._container is g._container:
                problems.append(("C20:dg-copy-not-a-new-container", {}))
            if self.canon(Box(c))[:-2 if len(self.canon(impl)) > 2 else 1] != self.canon(impl)[:-2 if len(self.canon(impl)) > 2 else 1]:
                problems.append(("C20:dg-copy-differs", {}))
            for k in g.keys():
                if c[k] is not g[k]:
                    problems.append(("C20:dg-copy-not-shallow", {"key": k}))
            impl.obj = c
        elif name in ("update", "update_kwargs", "ctor_from_dict"):
            items = op[1]
            if name == "ctor_from_dict":
                # a constructor call builds a new group: the model restarts too
                model.d.clear()
                vals, exps = {}, []
                ok = True
                tags = {}
                for k, kind in items:
                    tags[k] = 1
                    vals[k] = make_value(kind, tags[k])
                try:
                    newg = osyris.Datagroup(self.as_arg(vals, op[2] if len(op) > 2 else "dict"))
                    impl.obj = g = newg
                    for k, kind in items:
                        model.d[k] = (kind, tags[k])
                    ret = "constructed"
                except ValueError:
                    ret = "reject"
                    impl.obj = g = osyris.Datagroup()
                shapes = {SHAPE[kind] for _, kind in items}
                if len(shapes) == 1 and ret != "constructed":
                    problems.append(("C20:dg-ctor-rejected-equal-shapes", {"items": items}))
                if len(shapes) > 1 and ret == "constructed" and SHAPE[items[0][1]] != ():
                    problems.append(("C20:dg-ctor-accepted-mixed-shapes", {"items": items}))
            else:
                # dict.update semantics: a sequence of insertions, stops at the first error
                rets = []
                if name == "update":
                    d = {}
                    tagged = []
                    for k, kind in items:
                        tag = self._tag(model, k)
                        d[k] = make_value(kind, tag)
                        tagged.append((k, kind, tag))
                    exps = []
                    m2 = DgModel()
                    m2.d = dict(model.d)
                    expect_fail_at = None
                    either = False
                    for i, (k, kind, tag) in enumerate(tagged):
                        e = m2.set_expect(k, kind)
                        if e == "either":
                            either = True
                            break
                        if e == "reject":
                            expect_fail_at = i
                            break
                        m2.d[k] = (kind, tag)
                    try:
                        g.update(self.as_arg(d, op[2] if len(op) > 2 else "dict"))
                        got = "accept"
                    except ValueError:
                        got = "reject"
                    ret = got
                    if either:
                        # follow the implementation: resynchronise the model from it
                        model.d = _resync(self, impl, tagged, model)
                    else:
                        if (expect_fail_at is None) != (got == "accept"):
                            problems.append(("C20:dg-update-outcome", {"items": items, "got": got}))
                        model.d = m2.d
                else:
                    k, kind = items[0]
                    ret = self._set(impl, model, k, kind, problems, lambda kk, v: g.update(**{kk: v}))
        else:
            raise ValueError(op)
        g = impl.obj
        # full read-only observation vs the model
        obs = observe_datagroup(g, self.keys)
        want = model_observation(model, self.keys)
        for field in want:
            if obs[field] != want[field]:
                problems.append((f"C20:dg-observe-{field}", {"got": obs[field], "want": want[field], "after": op}))
                break
        return [ret, obs], problems


def _resync(spec, impl, tagged, model):
    d = dict(model.d)
    g = impl.obj
    tagmap = {k: (kind, tag) for k, kind, tag in tagged}
    new = {}
    for k in g._container:
        if k in tagmap and describe_member(g._container[k]) == describe_member(_named(make_value(*tagmap[k]), k)):
            new[k] = tagmap[k]
        elif k in d:
            new[k] = d[k]
        else:
            new[k] = tagmap.get(k)
    return new


def _named(v, name):
    v.name = name
    return v


def observe_datagroup(g, keys):
    sentinel = "DEFAULT"
    obs = {
        "len": len(g),
        "iter": list(iter(g)),
        "keys": list(g.keys()),
        "items": [[k, describe_member(v)] for k, v in g.items()],
        "values": [describe_member(v) for v in g.values()],
        "contains": [k in g for k in keys],
        "get": [_desc_or(g.get(k, sentinel)) for k in keys],
        "getitem": [_getitem(g, k) for k in keys],
        "names": [v.name for v in g.values()],
    }
    return obs


def _desc_or(v):
    return v if isinstance(v, str) else describe_member(v)


def _getitem(g, k):
    try:
        return describe_member(g[k])
    except KeyError:
        return "KeyError"


def model_observation(model, keys):
    vals = {k: describe_member(_named(make_value(kind, tag), k)) for k, (kind, tag) in model.d.items()}
    ks = list(model.d.keys())
    return {
        "len": len(ks),
        "iter": ks,
        "keys": ks,
        "items": [[k, vals[k]] for k in ks],
        "values": [vals[k] for k in ks],
        "contains": [k in model.d for k in keys],
        "get": [vals.get(k, "DEFAULT") for k in keys],
        "getitem": [vals.get(k, "KeyError") for k in keys],
        "names": ks,
    }


# ------------------------------------------------------------------ Dataset spec

DS_VALUES = ["G0", "G1", "G2", "ARRAY", "DICT", "NONE"]


def make_ds_value(kind, tag):
    import osyris

    if kind == "G0":
        return osyris.Datagroup()
    if kind == "G1":
        return osyris.Datagroup({"q": make_value("A3m", tag)})
    if kind == "G2":
        return osyris.Datagroup({"q": make_value("A2m", tag), "r": make_value("A2m", tag + 1)})
    if kind == "ARRAY":
        return make_value("A3m", tag)
    if kind == "DICT":
        return {"q": 1}
    return None


def describe_group(g):
    import osyris

    if not isinstance(g, osyris.Datagroup):
        return ["not-a-group", repr(g)]
    return ["G", g.name, [[k, describe_member(v)] for k, v in g.items()]]


class DatasetSpec:
    def __init__(self, params):
        ks = params["keys"]
        ops = []
        for k in ks:
            for kind in DS_VALUES:
                ops.append(["set", k, kind])
        for k in ks:
            ops.append(["del", k])
            ops.append(["pop", k])
        ops.append(["clear"])
        ops.append(["copy_and_continue"])
        ops.append(["meta_write", "t", 1])
        ops.append(["meta_write", "u", 2])
        ops.append(["update", [[ks[0], "G1"], [ks[1], "G0"]]])
        ops.append(["update", [[ks[1], "G2"], [ks[0], "ARRAY"]]])
        ops.append(["update_kwargs", [[ks[-1], "G1"]]])
        ops.append(["update_mix", [[ks[0], "G2"]], [[ks[1], "G1"]]])
        self.ops = ops
        self.keys = ks
        self.ntag = 0

    def fresh(self):
        import osyris

        self.ntag = 0
        return Box(osyris.Dataset()), {"d": {}, "meta": {}}

    def canon(self, impl):
        ds = impl.obj
        return [[[k, describe_group(ds.groups[k])] for k in ds.groups], sorted(ds.meta.items()), history.hidden_state(ds, ("groups", "meta")),
                [history.hidden_state(g, ("_container", "name", "parent")) for g in ds.groups.values()]]

    def step(self, impl, model, op):
        import osyris

        ds = impl.obj
        problems = []
        ret = None
        name = op[0]

        def insert_seq(pairs, call):
            """dict.update semantics with a type gate."""
            vals = {}
            tagged = []
            for k, kind in pairs:
                prev = model["d"].get(k)
                tag = 1 if prev is None else prev[1] % 3 + 1
                if kind == "G0":
                    tag = 0  # an empty group shows no tag: the tag must stay a function of the visible state
                vals[k] = make_ds_value(kind, tag)
                tagged.append((k, kind, tag))
            fail_at = None
            for i, (k, kind, tag) in enumerate(tagged):
                if kind not in ("G0", "G1", "G2"):
                    fail_at = i
                    break
            try:
                call(vals)
                got = "accept"
            except TypeError:
                got = "reject"
            except Exception:
                # refused some other way: what the container holds afterwards is compared with the model below like after any refusal
                got = "reject"
            if (fail_at is None) != (got == "accept"):
                problems.append(("C20:ds-type-gate", {"pairs": pairs, "got": got}))
            upto = len(tagged) if fail_at is None else fail_at
            for k, kind, tag in tagged[:upto]:
                model["d"][k] = (kind, tag)
            return got

        if name == "set":
            ret = insert_seq([[op[1], op[2]]], lambda vals: ds.__setitem__(op[1], vals[op[1]]))
        elif name in ("del", "pop"):
            key = op[1]
            exp_raise = key not in model["d"]
            try:
                if name == "del":
                    del ds[key]
                    ret = "deleted"
                else:
                    v = ds.pop(key)
                    ret = ["popped", describe_group(v)]
                    if not exp_raise:
                        kind, tag = model["d"][key]
                        want = describe_group(_gnamed(make_ds_value(kind, tag), key))
                        if ret[1] != want:
                            problems.append(("C20:ds-pop-returned-wrong-value", {"got": ret[1], "want": want}))
                raised = False
            except KeyError:
                raised, ret = True, "KeyError"
            if raised != exp_raise:
                problems.append((f"C20:ds-{name}-keyerror-mismatch", {"key": key}))
            model["d"].pop(key, None)
        elif name == "clear":
            ds.clear()
            model["d"].clear()
            model["meta"].clear()
        elif name == "meta_write":
            ds.meta[op[1]] = op[2]
            model["meta"][op[1]] = op[2]
        elif name == "copy_and_continue":
            c = ds.copy()
            if c is ds or c.groups is ds.groups:
                problems.append(("C20:ds-copy-not-a-new-container", {}))
            if c.meta is ds.meta:
                problems.append(("C20:ds-copy-shares-meta", {}))
            if self.canon(Box(c))[:-2 if len(self.canon(impl)) > 2 else 1] != self.canon(impl)[:-2 if len(self.canon(impl)) > 2 else 1]:
                problems.append(("C20:ds-copy-differs", {}))
            for k in ds.keys():
                if c[k] is not ds[k]:
                    problems.append(("C20:ds-copy-not-shallow", {"key": k}))
            impl.obj = c
        elif name == "update":
            ret = insert_seq(op[1], lambda vals: ds.update(vals))
        elif name == "update_kwargs":
            ret = insert_seq(op[1], lambda vals: ds.update(**vals))
        elif name == "update_mix":
            pairs = op[1] + op[2]
            n1 = len(op[1])

            def call(vals):
                items = list(vals.items())
                ds.update(dict(items[:n1]), **dict(items[n1:]))

            ret = insert_seq(pairs, call)
        else:
            raise ValueError(op)
        ds = impl.obj
        obs = observe_dataset(ds, self.keys)
        want = model_ds_observation(model, self.keys)
        for field in want:
            if obs[field] != want[field]:
                problems.append((f"C20:ds-observe-{field}", {"got": obs[field], "want": want[field], "after": op}))
                break
        return [ret, obs], problems


def _gnamed(g, name):
    if hasattr(g, "name"):
        g.name = name
    return g


def observe_dataset(ds, keys):
    return {
        "len": len(ds),
        "iter": list(iter(ds)),
        "keys": list(ds.keys()),
        "items": [[k, describe_group(v)] for k, v in ds.items()],
        "values": [describe_group(v) for v in ds.values()],
        "contains": [k in ds for k in keys],
        "get": [_g_or(ds.get(k, "DEFAULT")) for k in keys],
        "names": [getattr(v, "name", "<%s has no name>" % type(v).__name__) for v in ds.values()],
        "parents": [getattr(v, "parent", None) is ds for v in ds.values()],
        "meta": sorted(ds.meta.items()),
    }


def _g_or(v):
    return v if isinstance(v, str) else describe_group(v)


def model_ds_observation(model, keys):
    vals = {k: describe_group(_gnamed(make_ds_value(kind, tag), k)) for k, (kind, tag) in model["d"].items()}
    ks = list(model["d"].keys())
    return {
        "len": len(ks),
        "iter": ks,
        "keys": ks,
        "items": [[k, vals[k]] for k in ks],
        "values": [vals[k] for k in ks],
        "contains": [k in model["d"] for k in keys],
        "get": [vals.get(k, "DEFAULT") for k in keys],
        "names": ks,
        "parents": [True] * len(ks),
        "meta": sorted(model["meta"].items()),
    }


class EqualitySpec:
    """Histories of == between two live groups holding the same quantities in different units, interleaved with in-place
    changes of their members: the verdict must always follow the *current* contents."""

    def __init__(self, params):
        self.ops = [["eq", "G", "H"], ["eq", "H", "G"], ["imul", "H", "a", 2.0], ["itruediv", "H", "a", 2.0], ["iadd", "G", "a", 1.0],
                    ["isub", "G", "a", 1.0], ["poke", "H", "a", 0, 150.0], ["poke", "H", "a", 0, 100.0], ["replace", "H", "a"],
                    ["imul", "H", "v", 2.0], ["itruediv", "H", "v", 2.0], ["imul", "G", "v", 2.0]]

    def fresh(self):
        import osyris

        A, V, DG = osyris.Array, osyris.Vector, osyris.Datagroup
        G = DG({"a": A(np.array([1.0, 2.0, 3.0]), unit="m"), "v": V(np.array([1.0, 2.0, 4.0]), np.array([0.5, 1.0, 2.0]), unit="m")})
        H = DG({"a": A(np.array([100.0, 200.0, 300.0]), unit="cm"), "v": V(np.array([100.0, 200.0, 400.0]), np.array([50.0, 100.0, 200.0]), unit="cm")})
        return {"G": G, "H": H}, {}

    def canon(self, impl):
        return [[k, [[m, describe_member(v)] for m, v in g.items()]] for k, g in impl.items()]

    @staticmethod
    def content(g):
        out = {}
        for k, v in g.items():
            comps = list(v._xyz.values()) if hasattr(v, "_xyz") else [v]
            scale = {"meter": 100.0, "centimeter": 1.0}[str(comps[0].unit)]
            out[k] = [np.asarray(c._array, dtype=float) * scale for c in comps]
        return out

    def step(self, impl, model, op):
        import osyris

        problems = []
        name = op[0]
        if name == "eq":
            x, y = impl[op[1]], impl[op[2]]
            cx, cy = self.content(x), self.content(y)
            want = all(np.allclose(a, b, rtol=1e-12, atol=0) for k in cx for a, b in zip(cx[k], cy[k]))
            try:
                got = bool(x == y)
            except Exception as e:
                return ["raised"], [(f"C20:eq-raised-after-history:{type(e).__name__}", {})]
            if got != want:
                problems.append((f"C20:eq-{'true-for-unequal' if got else 'false-for-equal'}-contents-after-in-place-changes", {"got": got, "expected": want}))
            return [got], problems
        g = impl[op[1]]
        m = g[op[2]]
        if name in ("imul", "itruediv", "iadd", "isub"):
            q = op[3] if name in ("imul", "itruediv") else osyris.Array(op[3], unit=m.unit)
            m = {"imul": lambda a, b: a.__imul__(b), "itruediv": lambda a, b: a.__itruediv__(b), "iadd": lambda a, b: a.__iadd__(b),
                 "isub": lambda a, b: a.__isub__(b)}[name](m, q)
            if hasattr(m, "_xyz"):
                g[op[2]] = m  # `g[k] *= q` stores the result back, as the operator statement would
        elif name == "poke":
            m.values[op[3]] = op[4]
        elif name == "replace":
            g[op[2]] = osyris.Array(np.asarray(m._array).copy() * 1.0, unit=m.unit)
        return [name], problems


def make_spec(name, params):
    if name == "equality":
        return EqualitySpec(params)
    if name == "datagroup":
        return DatagroupSpec(params)
    if name == "dataset":
        return DatasetSpec(params)
    raise KeyError(name)


# ------------------------------------------------------------- equality (E1)


def eq_catalogue():
    """name -> (builder, content) ; content: dict key -> (list of component value lists in CGS-free
    'canonical' unit, shape)"""
    import osyris

    A, V, DG = osyris.Array, osyris.Vector, osyris.Datagroup
    f = np.array
    cat = {}

    def add(name, build):
        cat[name] = build

    add("ab", lambda: DG({"a": A(f([1.0, 2, 3]), unit="m"), "b": A(f([4.0, 5, 6]), unit="s")}))
    add("ab_same", lambda: DG({"a": A(f([1.0, 2, 3]), unit="m"), "b": A(f([4.0, 5, 6]), unit="s")}))
    add("ba_order", lambda: DG({"b": A(f([4.0, 5, 6]), unit="s"), "a": A(f([1.0, 2, 3]), unit="m")}))
    add("ab_one_elem", lambda: DG({"a": A(f([1.0, 2, 3.5]), unit="m"), "b": A(f([4.0, 5, 6]), unit="s")}))
    add("ab_one_elem_b", lambda: DG({"a": A(f([1.0, 2, 3]), unit="m"), "b": A(f([4.0, 5.5, 6]), unit="s")}))
    add("ab_all_diff", lambda: DG({"a": A(f([7.0, 8, 9]), unit="m"), "b": A(f([1.0, 1, 1]), unit="s")}))
    add("ab_a_all_diff", lambda: DG({"a": A(f([7.0, 8, 9]), unit="m"), "b": A(f([4.0, 5, 6]), unit="s")}))
    add("ab_cm", lambda: DG({"a": A(f([100.0, 200, 300]), unit="cm"), "b": A(f([4.0, 5, 6]), unit="s")}))
    add("ab_cm_raw_equal", lambda: DG({"a": A(f([1.0, 2, 3]), unit="cm"), "b": A(f([4.0, 5, 6]), unit="s")}))
    add("ab_int", lambda: DG({"a": A(f([1, 2, 3]), unit="m"), "b": A(f([4, 5, 6]), unit="s")}))
    add("ab_len2", lambda: DG({"a": A(f([1.0, 2]), unit="m"), "b": A(f([4.0, 5]), unit="s")}))
    add("a_only", lambda: DG({"a": A(f([1.0, 2, 3]), unit="m")}))
    add("ac", lambda: DG({"a": A(f([1.0, 2, 3]), unit="m"), "c": A(f([4.0, 5, 6]), unit="s")}))
    add("abc", lambda: DG({"a": A(f([1.0, 2, 3]), unit="m"), "b": A(f([4.0, 5, 6]), unit="s"), "c": A(f([0.0, 0, 0]))}))
    add("empty", lambda: DG())
    add("empty2", lambda: DG())
    add("ab_zero_len", lambda: DG({"a": A(f([]), unit="m"), "b": A(f([]), unit="s")}))
    add("ab_zero_len2", lambda: DG({"a": A(f([]), unit="m"), "b": A(f([]), unit="s")}))
    add("ab_kg", lambda: DG({"a": A(f([1.0, 2, 3]), unit="kg"), "b": A(f([4.0, 5, 6]), unit="s")}))
    add("scal", lambda: DG({"a": A(1.0, unit="m"), "b": A(2.0, unit="s")}))
    add("scal_same", lambda: DG({"a": A(1.0, unit="m"), "b": A(2.0, unit="s")}))
    add("scal_diff", lambda: DG({"a": A(1.0, unit="m"), "b": A(3.0, unit="s")}))
    add("len1", lambda: DG({"a": A(f([1.0]), unit="m"), "b": A(f([2.0]), unit="s")}))
    add("len1_diff", lambda: DG({"a": A(f([1.5]), unit="m"), "b": A(f([2.0]), unit="s")}))
    add("vec", lambda: DG({"a": V(f([1.0, 2, 3]), f([4.0, 5, 6]), f([7.0, 8, 9]), unit="m"), "b": A(f([4.0, 5, 6]), unit="s")}))
    add("vec_same", lambda: DG({"a": V(f([1.0, 2, 3]), f([4.0, 5, 6]), f([7.0, 8, 9]), unit="m"), "b": A(f([4.0, 5, 6]), unit="s")}))
    add("vec_z_diff", lambda: DG({"a": V(f([1.0, 2, 3]), f([4.0, 5, 6]), f([7.0, 8, 9.5]), unit="m"), "b": A(f([4.0, 5, 6]), unit="s")}))
    add("vec_all_diff", lambda: DG({"a": V(f([0.0, 0, 0]), f([0.0, 0, 0]), f([0.0, 0, 0]), unit="m"), "b": A(f([4.0, 5, 6]), unit="s")}))
    add("vec_cm", lambda: DG({"a": V(f([100.0, 200, 300]), f([400.0, 500, 600]), f([700.0, 800, 900]), unit="cm"), "b": A(f([4.0, 5, 6]), unit="s")}))
    add("vec2", lambda: DG({"a": V(f([1.0, 2, 3]), f([4.0, 5, 6]), unit="m"), "b": A(f([4.0, 5, 6]), unit="s")}))
    return cat


# physical content for the oracle, written independently of osyris: key -> (kind, ncomp, dimension, SI values per component)
_SCALE = {"m": ("L", 1.0), "cm": ("L", 0.01), "s": ("T", 1.0), "kg": ("M", 1.0), "": ("1", 1.0)}


def eq_content(name):
    f = lambda *a: [float(x) for x in a]  # noqa: E731
    C = {
        "ab": {"a": ("m", [f(1, 2, 3)]), "b": ("s", [f(4, 5, 6)])},
        "ba_order": {"b": ("s", [f(4, 5, 6)]), "a": ("m", [f(1, 2, 3)])},
        "ab_one_elem": {"a": ("m", [f(1, 2, 3.5)]), "b": ("s", [f(4, 5, 6)])},
        "ab_one_elem_b": {"a": ("m", [f(1, 2, 3)]), "b": ("s", [f(4, 5.5, 6)])},
        "ab_all_diff": {"a": ("m", [f(7, 8, 9)]), "b": ("s", [f(1, 1, 1)])},
        "ab_a_all_diff": {"a": ("m", [f(7, 8, 9)]), "b": ("s", [f(4, 5, 6)])},
        "ab_cm": {"a": ("cm", [f(100, 200, 300)]), "b": ("s", [f(4, 5, 6)])},
        "ab_cm_raw_equal": {"a": ("cm", [f(1, 2, 3)]), "b": ("s", [f(4, 5, 6)])},
        "ab_int": {"a": ("m", [f(1, 2, 3)]), "b": ("s", [f(4, 5, 6)])},
        "ab_len2": {"a": ("m", [f(1, 2)]), "b": ("s", [f(4, 5)])},
        "a_only": {"a": ("m", [f(1, 2, 3)])},
        "ac": {"a": ("m", [f(1, 2, 3)]), "c": ("s", [f(4, 5, 6)])},
        "abc": {"a": ("m", [f(1, 2, 3)]), "b": ("s", [f(4, 5, 6)]), "c": ("", [f(0, 0, 0)])},
        "empty": {},
        "ab_zero_len": {"a": ("m", [[]]), "b": ("s", [[]])},
        "ab_kg": {"a": ("kg", [f(1, 2, 3)]), "b": ("s", [f(4, 5, 6)])},
        "scal": {"a": ("m", [1.0]), "b": ("s", [2.0])},
        "scal_diff": {"a": ("m", [1.0]), "b": ("s", [3.0])},
        "len1": {"a": ("m", [f(1)]), "b": ("s", [f(2)])},
        "len1_diff": {"a": ("m", [f(1.5)]), "b": ("s", [f(2)])},
        "vec": {"a": ("m", [f(1, 2, 3), f(4, 5, 6), f(7, 8, 9)]), "b": ("s", [f(4, 5, 6)])},
        "vec_z_diff": {"a": ("m", [f(1, 2, 3), f(4, 5, 6), f(7, 8, 9.5)]), "b": ("s", [f(4, 5, 6)])},
        "vec_all_diff": {"a": ("m", [f(0, 0, 0), f(0, 0, 0), f(0, 0, 0)]), "b": ("s", [f(4, 5, 6)])},
        "vec_cm": {"a": ("cm", [f(100, 200, 300), f(400, 500, 600), f(700, 800, 900)]), "b": ("s", [f(4, 5, 6)])},
        "vec2": {"a": ("m", [f(1, 2, 3), f(4, 5, 6)]), "b": ("s", [f(4, 5, 6)])},
    }
    alias = {"ab_same": "ab", "empty2": "empty", "ab_zero_len2": "ab_zero_len", "scal_same": "scal", "vec_same": "vec"}
    return C[alias.get(name, name)]


def eq_expected(n1, n2):
    """-> set of allowed outcomes among {'True','False','raises'}"""
    c1, c2 = eq_content(n1), eq_content(n2)
    if set(c1) != set(c2):
        return {"False"}
    allowed = None
    verdict = True
    loose = False
    for k in c1:
        u1, comps1 = c1[k]
        u2, comps2 = c2[k]
        d1, s1 = _SCALE[u1]
        d2, s2 = _SCALE[u2]
        if d1 != d2:
            return {"False", "raises"}
        if len(comps1) != len(comps2):
            return {"False", "raises"}
        for a, b in zip(comps1, comps2):
            a, b = np.asarray(a) * s1, np.asarray(b) * s2
            if a.shape != b.shape:
                try:
                    a, b = np.broadcast_arrays(a, b)
                    loose = True
                except ValueError:
                    return {"False", "raises"}
            if a.size and not np.all(np.isclose(a, b, rtol=1e-12, atol=0)):
                verdict = False
    if loose:
        return {"True", "False", "raises"} if verdict else {"False", "raises"}
    return {"True"} if verdict else {"False"}


def eq_eval(n1, n2):
    cat = eq_catalogue()
    g1, g2 = cat[n1](), cat[n2]()
    try:
        r = g1 == g2
        if isinstance(r, (bool, np.bool_)):
            return str(bool(r))
        return "non-bool:" + type(r).__name__
    except Exception as e:
        return "raises"


def eq_work(payload):
    acc = Acc()
    names = list(eq_catalogue().keys())
    for idx, (n1, n2) in my_share(itertools.product(names, names), payload):
        got = eq_eval(n1, n2)
        allowed = eq_expected(n1, n2)
        acc.case(nontrivial=(n1 != n2), outcome=got)
        if got not in allowed:
            same_keys = set(eq_content(n1)) == set(eq_content(n2))
            if got == "True":
                sig = "C20:eq-true-for-unequal-contents"
            elif got == "False":
                sig = "C20:eq-false-for-equal-contents" + ("-empty-members" if _has_empty(n1) else "")
            else:
                sig = "C20:eq-" + got
            acc.violation(sig, idx, {"kind": "eq", "left": n1, "right": n2}, {"got": got, "allowed": sorted(allowed)})
        acc.sample({"left": n1, "right": n2, "got": got, "allowed": sorted(allowed)})
    return acc


def _has_empty(n):
    c = eq_content(n)
    return any(len(comps[0]) == 0 if isinstance(comps[0], list) else False for _, comps in c.values())


# ---------------------------------------------------------------------- driver


def params_for(ctx_thorough):
    # 0-d members are left to C06 (a group whose first member is 0-d has no shape gate, and the
    # statement only speaks of mis-shaped values): here every value has a non-empty shape
    if ctx_thorough:
        return {"keys": KEYS, "kinds": ["A3m", "A3s_i8", "V3_3", "A2m", "A1m", "V2_3"]}
    return {"keys": KEYS, "kinds": ["A3m", "A3s_i8", "V3_3", "A2m"]}


def env_work(payload):
    """The Datagroup and Dataset explorations to depth 3, inside another interpreter environment (python -O strips asserts and
    `if __debug__:` blocks: what a container accepts and refuses must not depend on it)."""
    from ..runner import SerialPool

    pool = SerialPool()
    _c1, a1 = history.explore(pool, MOD, "datagroup", params_for(False), 3, 1)
    _c2, a2 = history.explore(pool, MOD, "dataset", {"keys": ["a", "b"]}, 3, 1)
    return Acc.merged([a1, a2])


def environment_replay(payload):
    return replay_sigs(payload["case"])


def run(ctx):
    from ..runner import EnvironmentRuns

    envruns = EnvironmentRuns(MOD, "env_work", ctx.base(), ("python-O", "PYTHONOPTIMIZE=2"))
    p = params_for(ctx.thorough)
    depth = 6 if ctx.thorough else 4
    und = 3 if ctx.thorough else 2
    cov1, acc1 = history.explore(ctx.pool, MOD, "datagroup", p, depth, und)
    pds = {"keys": ["a", "b"]}
    cov2, acc2 = history.explore(ctx.pool, MOD, "dataset", pds, depth, und)
    acc3 = Acc.merged(ctx.pool.shards(MOD, "eq_work", ctx.base()))
    cov4, acc4 = history.explore(ctx.pool, MOD, "equality", {}, 5 if ctx.thorough else 4, 3)
    acc = Acc.merged([acc1, acc2, acc3, acc4] + envruns.results())
    cov = {
        "states": cov1["states"] + cov2["states"] + cov4["states"],
        "transitions": cov1["transitions"] + cov2["transitions"] + cov4["transitions"],
        "traces_validated_against_impl": cov1["traces_validated_against_impl"] + cov2["traces_validated_against_impl"] + cov4["transitions"],
        "equality_histories": {k: v for k, v in cov4.items() if k != "samples"},
        "samples": [{"datagroup_history": cov1["samples"][-1]}, {"dataset_history": cov2["samples"][-1]}] + acc3.samples[:2],
        "datagroup": {k: v for k, v in cov1.items() if k != "samples"},
        "dataset": {k: v for k, v in cov2.items() if k != "samples"},
        "equality_pairs": acc3.evaluations,
        "equality_pairs_distinct_groups": acc3.nontrivial,
        "equality_outcomes": dict(acc3.outcomes),
        "exhaustive": True,
        "rule": "BFS over mutating dict operations (set/del/pop/clear/copy/update/ctor) on a live Datagroup and a live "
        "Dataset against a dict model, full read-only observation (len/iter/keys/values/items/in/get/[]/names/parents/meta) "
        "after every transition; plus every ordered pair of a 30-group catalogue through ==",
    }
    return {
        "level": LEVEL,
        "coverage": cov,
        "violations": acc.violation_list(),
        "errors": acc.errors,
        "assumptions": [
            "values are fresh objects per insertion (aliasing is C17's subject)",
            "scalar (0-d) groups and replacing the only member may accept or reject a shape change",
            "== on members of incompatible dimension or non-broadcastable shape may answer False or raise",
        ],
    }


def replay_sigs(case):
    if case.get("environment"):
        from ..runner import replay_in_environment

        return replay_in_environment(MOD, case)
    if case.get("kind") == "eq":
        got = eq_eval(case["left"], case["right"])
        allowed = eq_expected(case["left"], case["right"])
        if got in allowed:
            return []
        acc = Acc()
        # same classification as eq_work
        if got == "True":
            return ["C20:eq-true-for-unequal-contents"]
        if got == "False":
            return ["C20:eq-false-for-equal-contents" + ("-empty-members" if _has_empty(case["left"]) else "")]
        return ["C20:eq-" + got]
    return [s for s, _ in history.replay_case(case)]

"""C17 — in-place updates, copies and views follow a fixed aliasing contract.

E2: BFS over interleavings of store / in-place / copy / deepcopy / slice operations on an object graph
(two Arrays, a Vector, two Datagroups, a Dataset and one derived object). The reference model is a heap:
buffers, wrapper objects pointing at (buffer, offset), containers holding wrappers by identity. After
every operation:
  * the target's physical value and dimension equal x op y computed with the independent unit table,
    an Array target is still the same object, the right operand is bit-identical;
  * every other wrapper of the same buffer shows the same raw numbers on the overlap (its own unit label
    is not constrained after a unit-changing update of another wrapper object);
  * every wrapper of another buffer is bit-identical (values and unit);
  * the partition of wrappers by identity and by shared memory equals the model's.
"""
import copy
import operator

import numpy as np

from ..engines import history
from ..runner import Acc, my_share
from ..models import units as M2
from . import _arr

LEVEL = "model_checking"
MOD = "mc.props.C17"

IOPS = {"iadd": operator.iadd, "isub": operator.isub, "imul": operator.imul, "itruediv": operator.itruediv}
BOPS = {"iadd": np.add, "isub": np.subtract, "imul": np.multiply, "itruediv": np.divide}


class Heap:
    """Reference model of the object graph."""

    def __init__(self):
        self.nbuf = 0
        self.nobj = 0
        self.arrays = {}  # obj id -> {"buf": id, "idx": tuple of element positions in the buffer, "len": int}
        self.vectors = {}  # obj id -> [array obj ids]
        self.groups = {}  # obj id -> {key: obj id}
        self.datasets = {}  # obj id -> {key: group obj id}
        self.slots = {}
        # component ids of Vectors that were updated in place: v op= q may hand back another Vector object, so the identity of the
        # wrappers is not promised, but every holder of the vector must show the updated values and unit
        self.loose = set()

    def new_buf(self):
        self.nbuf += 1
        return self.nbuf

    def new_id(self, prefix):
        self.nobj += 1
        return f"{prefix}{self.nobj}"

    def new_array(self, n, buf=None, idx=None):
        oid = self.new_id("a")
        idx = tuple(range(n)) if idx is None else tuple(idx)
        self.arrays[oid] = {"buf": buf if buf is not None else self.new_buf(), "idx": idx, "len": len(idx)}
        return oid

    def view(self, oid, sl):
        a = self.arrays[oid]
        return self.new_array(0, buf=a["buf"], idx=a["idx"][sl])

    def copy_array(self, oid):
        return self.new_array(self.arrays[oid]["len"])

    def copy_vector(self, oid):
        nid = self.new_id("v")
        self.vectors[nid] = [self.copy_array(c) for c in self.vectors[oid]]
        return nid

    def deep_member(self, oid):
        return self.copy_array(oid) if oid in self.arrays else self.copy_vector(oid)


class State:
    """The live objects, addressed by the same slot names as the model."""

    def __init__(self):
        self.slots = {}


QS = ["same", "compat", "float", "incompat", "other_dim", "Qnd_compat", "nd", "inverse_compat"]


def make_q(kind):
    """fresh right operand -> (object, phys, dims, tol)"""
    import osyris

    if kind == "same":
        a = osyris.Array(np.array([2.0, 4.0, 8.0]), unit="m")
    elif kind == "compat":
        a = osyris.Array(np.array([50.0, 25.0, 200.0]), unit="cm")
    elif kind == "incompat":
        a = osyris.Array(np.array([1.0, 2.0, 3.0]), unit="s")
    elif kind == "Qnd_compat":
        # an array-valued pint Quantity in another unit of the same dimension (its buffer belongs to the caller)
        q = np.array([50.0, 25.0, 200.0]) * osyris.units("cm")
        return q, np.array([50.0, 25.0, 200.0]), M2.dims_of(cm=1), 0.0
    elif kind == "nd":
        v = np.array([2.0, 0.5, 4.0])
        return v, v.copy(), M2.dims_of(), 0.0
    elif kind == "other_dim":
        a = osyris.Array(np.array([2.0, 0.5, 4.0]), unit="s")
    elif kind == "inverse_compat":
        # the product with a length is a pure number whose unit (m / cm) hides a factor: an opacity times a column density
        a = osyris.Array(np.array([2.0, 0.5, 4.0]), unit="1/cm")
    else:
        return 2.0, np.float64(2.0), M2.dims_of(), 0.0
    p, d, t = _arr.phys(a)
    return a, p, d, t


def _view_kind(a, b):
    def contiguous(x):
        return all(j - i == 1 for i, j in zip(x["idx"], x["idx"][1:]))

    return "contiguous-views" if contiguous(a) and contiguous(b) else "strided-or-reversed-view"


def _snap(w):
    """values, dtype, shape and unit of an Array wrapper (storing renames a value to its key: the name is
    not part of the aliasing contract)"""
    a = np.asarray(w._array)
    return (str(w.unit), str(a.dtype), a.shape, a.tobytes())


class Spec:
    def __init__(self, params):
        self.ops = [list(o) for o in params["ops"]]
        self.dtype = params.get("dtype", "f8")

    def fresh(self):
        import osyris

        dt = _arr.DTYPES[self.dtype]
        st, hp = State(), Heap()
        A0 = osyris.Array(np.array([1.0, 2.0, 3.0], dtype=dt), unit="m", name="A0")
        V0 = osyris.Vector(np.array([1.0, 2.0, 3.0], dtype=dt), np.array([4.0, 5.0, 6.0], dtype=dt), unit="m", name="V0")
        A1 = osyris.Array(np.array([50.0, 25.0, 200.0], dtype=dt), unit="cm", name="A1")
        st.slots = {"A0": A0, "A1": A1, "V0": V0, "G0": osyris.Datagroup(), "G1": osyris.Datagroup(), "DS": osyris.Dataset(), "X": None}
        a0 = hp.new_array(3)
        a1 = hp.new_array(3)
        v0 = hp.new_id("v")
        hp.vectors[v0] = [hp.new_array(3), hp.new_array(3)]
        g0, g1, ds = hp.new_id("g"), hp.new_id("g"), hp.new_id("d")
        hp.groups[g0], hp.groups[g1], hp.datasets[ds] = {}, {}, {}
        hp.slots = {"A0": a0, "A1": a1, "V0": v0, "G0": g0, "G1": g1, "DS": ds, "X": None}
        return st, hp

    # ------------------------------------------------------------ traversal
    def wrappers(self, st, hp):
        """Every reachable Array wrapper: list of (path, live Array, model array id)."""
        import osyris

        out, problems = [], []

        def visit(path, obj, oid):
            if oid is None or obj is None:
                if (oid is None) != (obj is None):
                    problems.append(("C17:object-graph-differs-from-model", {"path": path}))
                return
            if oid in hp.arrays:
                if not isinstance(obj, osyris.Array):
                    problems.append(("C17:object-graph-differs-from-model", {"path": path, "type": type(obj).__name__}))
                    return
                out.append((path, obj, oid))
            elif oid in hp.vectors:
                if not isinstance(obj, osyris.Vector) or len(obj._xyz) != len(hp.vectors[oid]):
                    problems.append(("C17:object-graph-differs-from-model", {"path": path, "type": type(obj).__name__}))
                    return
                for c, (cname, comp) in zip(hp.vectors[oid], obj._xyz.items()):
                    visit(path + "." + cname, comp, c)
            elif oid in hp.groups:
                if not isinstance(obj, osyris.Datagroup) or list(obj.keys()) != list(hp.groups[oid].keys()):
                    problems.append(("C17:object-graph-differs-from-model", {"path": path, "keys": list(getattr(obj, "keys", lambda: [])())}))
                    return
                for k, m in hp.groups[oid].items():
                    visit(path + f"[{k}]", obj[k], m)
            elif oid in hp.datasets:
                if not isinstance(obj, osyris.Dataset) or list(obj.keys()) != list(hp.datasets[oid].keys()):
                    problems.append(("C17:object-graph-differs-from-model", {"path": path}))
                    return
                for k, g in hp.datasets[oid].items():
                    visit(path + f"[{k}]", obj[k], g)

        for slot, oid in hp.slots.items():
            visit(slot, st.slots[slot], oid)
        return out, problems

    def canon(self, st_hp):
        st = st_hp if isinstance(st_hp, State) else st_hp
        # canonical form: per slot structural description + identity classes + memory classes
        import osyris

        desc = {}
        ids, mems = {}, []

        def d(obj, path):
            if obj is None:
                return None
            if isinstance(obj, osyris.Array):
                ids.setdefault(id(obj), len(ids))
                mems.append((path, obj._array))
                return ["A", ids[id(obj)], str(obj.unit), str(obj.dtype), np.asarray(obj._array).tolist(), history.hidden_state(obj, ("_array", "_unit", "name"))]
            if isinstance(obj, osyris.Vector):
                ids.setdefault(id(obj), len(ids))
                return ["V", ids[id(obj)], [d(c, path + "." + n) for n, c in obj._xyz.items()], history.hidden_state(obj, ("x", "y", "z", "_name"))]
            if isinstance(obj, osyris.Datagroup):
                ids.setdefault(id(obj), len(ids))
                return ["G", ids[id(obj)], [[k, d(v, path + f"[{k}]")] for k, v in obj.items()], history.hidden_state(obj, ("_container", "name", "parent"))]
            if isinstance(obj, osyris.Dataset):
                ids.setdefault(id(obj), len(ids))
                return ["D", ids[id(obj)], [[k, d(v, path + f"[{k}]")] for k, v in obj.items()]]
            return repr(obj)

        for slot in ("A0", "A1", "V0", "G0", "G1", "DS", "X"):
            desc[slot] = d(st.slots[slot], slot)
        share = []
        for i in range(len(mems)):
            for j in range(i + 1, len(mems)):
                if np.shares_memory(mems[i][1], mems[j][1]):
                    share.append([mems[i][0], mems[j][0]])
        return [desc, share]

    # ------------------------------------------------------------ one step
    def step(self, st, hp, op):
        import osyris

        problems = []
        name = op[0]
        before, pr = self.wrappers(st, hp)
        problems += pr
        snap = {path: (_snap(w), np.asarray(w._array).copy(), id(w)) for path, w, _ in before}
        affected_buf = None
        target_paths = set()
        ret = None

        def slot_obj(s):
            return st.slots[s], hp.slots[s]

        if name == "store":
            src, grp, key = op[1], op[2], op[3]
            obj, oid = slot_obj(src)
            g, gid = slot_obj(grp)
            storable = oid in hp.arrays or oid in hp.vectors
            if storable:
                n = hp.arrays[oid]["len"] if oid in hp.arrays else hp.arrays[hp.vectors[oid][0]]["len"]
                others = [m for k, m in hp.groups[gid].items() if k != key]
                for m in others:
                    mlen = hp.arrays[m]["len"] if m in hp.arrays else hp.arrays[hp.vectors[m][0]]["len"]
                    storable = storable and mlen == n
            if obj is None or not storable:
                ret = "disabled"
            else:
                try:
                    g[key] = obj
                    hp.groups[gid][key] = oid
                    ret = "stored"
                except ValueError as e:
                    # replacing the only member by a value of another length may be refused (see C06)
                    cur = hp.groups[gid].get(key)
                    curlen = None
                    if cur is not None:
                        curlen = hp.arrays[cur]["len"] if cur in hp.arrays else hp.arrays[hp.vectors[cur][0]]["len"]
                    if not (cur is not None and curlen != n):
                        problems.append(("C17:store-raised:ValueError", {"op": op}))
                    ret = "refused"
                except Exception as e:
                    problems.append(("C17:store-raised:" + type(e).__name__, {"op": op}))
        elif name == "store_group":
            g, gid = slot_obj(op[1])
            ds, did = slot_obj("DS")
            ds[op[2]] = g
            hp.datasets[did][op[2]] = gid
            ret = "stored"
        elif name == "inplace":
            tgt, opname, qkind = op[1], op[2], op[3]
            # resolve the target: a slot, or a member reached through a container
            if tgt == "G0[a]":
                g, gid = slot_obj("G0")
                if "a" not in hp.groups[gid]:
                    return ["disabled"], problems
                obj, oid = g["a"], hp.groups[gid]["a"]
            else:
                obj, oid = slot_obj(tgt)
            if obj is None or not (oid in hp.arrays or oid in hp.vectors):
                return ["disabled"], problems
            q, Q, dQ, tQ = make_q(qkind)
            sq = _arr.snapshot(q)
            is_vec = oid in hp.vectors
            comps = list(obj._xyz.values()) if is_vec else [obj]
            comp_ids = hp.vectors[oid] if is_vec else [oid]
            if any(len(np.asarray(c._array)) != len(np.atleast_1d(Q)) and np.ndim(Q) for c in comps):
                # operand length must match the view (a slice has 2 rows): cut the operand
                n = len(np.asarray(comps[0]._array))
                if np.ndim(Q):
                    q = q[:n] if n <= 3 else q
                    Q = Q[:n]
                    sq = _arr.snapshot(q)
            P = [_arr.phys(c) for c in comps]
            must_raise = opname in ("iadd", "isub") and tuple(P[0][1]) != tuple(dQ)
            try:
                with np.errstate(all="ignore"):
                    res = IOPS[opname](obj, q)
                raised = None
            except Exception as e:
                res, raised = None, type(e).__name__
            if _arr.snapshot(q) != sq:
                problems.append((f"C17:inplace-modified-right-operand:{opname}:{qkind}", {"op": op}))
            if must_raise:
                if not raised:
                    problems.append((f"C17:inplace-incompatible-did-not-raise:{opname}:{qkind}", {"op": op}))
                ret = "raised"
            elif raised:
                problems.append((f"C17:inplace-raised:{opname}:{qkind}:{raised}", {"op": op}))
                ret = "raised"
            else:
                ret = "updated"
                if not is_vec and res is not obj:
                    problems.append((f"C17:inplace-array-result-is-a-new-object:{opname}", {"op": op}))
                # expected physical values of the target's components
                for c, (p, dP, tP) in zip(comps, P):
                    with np.errstate(all="ignore"):
                        want = BOPS[opname](p, Q)
                    if opname == "imul":
                        wd = tuple(x + y for x, y in zip(dP, dQ))
                    elif opname == "itruediv":
                        wd = tuple(x - y for x, y in zip(dP, dQ))
                    else:
                        wd = dP
                    got, gd, gt = _arr.phys(c)
                    if tuple(gd) != tuple(wd):
                        problems.append((f"C17:inplace-wrong-unit:{opname}:{qkind}", {"unit": str(c.unit), "op": op}))
                    elif not _arr.close(got, want, _arr.eps_for(c.dtype) + tP + tQ + gt):
                        problems.append((f"C17:inplace-wrong-value:{opname}:{qkind}", {"got": np.ravel(got).tolist(), "expected": np.ravel(want).tolist(), "op": op}))
                affected_buf = {hp.arrays[c]["buf"] for c in comp_ids}
                target_paths = {id(c) for c in comps}
                if is_vec:
                    # v op= q may rebind the name to another Vector object; the vector it denotes is the same one for the model: every
                    # other holder of it (the same Vector stored in a group, in several groups) must observe the update, value and unit
                    hp.loose.update(comp_ids)
                    if tgt in hp.slots:
                        st.slots[tgt] = res
                    if not isinstance(res, osyris.Vector):
                        problems.append(("C17:inplace-vector-result-type", {"type": type(res).__name__}))
                    else:
                        target_paths = {id(c) for c in res._xyz.values()} | target_paths
        elif name == "binop":
            # x (op) y with two persistent objects; nothing may change, and the result must be the physical x op y computed
            # from their *current* values (an operand converted before and modified in place since must be converted anew)
            x, _ = slot_obj(op[1])
            y, _ = slot_obj(op[3])
            px, dx_, tx = _arr.phys(x)
            py, dy_, ty = _arr.phys(y)
            opname = op[2]
            must_raise = opname in ("add", "sub") and tuple(dx_) != tuple(dy_)
            try:
                with np.errstate(all="ignore"):
                    r = {"add": operator.add, "sub": operator.sub, "mul": operator.mul, "truediv": operator.truediv, "lt": operator.lt}[opname](x, y)
                raised = None
            except Exception as e:
                r, raised = None, type(e).__name__
            if must_raise or (opname == "lt" and tuple(dx_) != tuple(dy_)):
                if not raised:
                    problems.append((f"C17:binop-incompatible-did-not-raise:{opname}", {"op": op, "units": [str(x.unit), str(y.unit)]}))
            elif raised:
                problems.append((f"C17:binop-raised:{opname}:{raised}", {"op": op}))
            else:
                with np.errstate(all="ignore"):
                    want = {"add": np.add, "sub": np.subtract, "mul": np.multiply, "truediv": np.divide, "lt": np.less}[opname](px, py)
                if opname == "lt":
                    if not np.array_equal(np.asarray(r.values), want):
                        problems.append(("C17:binop-wrong-value-after-history:lt", {"op": op, "got": np.asarray(r.values).tolist(), "expected": want.tolist()}))
                else:
                    got, gd, gt = _arr.phys(r)
                    if not _arr.close(got, want, _arr.eps_for(x.dtype, y.dtype, r.dtype) + tx + ty + gt):
                        problems.append((f"C17:binop-wrong-value-after-history:{opname}", {"op": op, "got": np.ravel(got).tolist(), "expected": np.ravel(want).tolist()}))
            ret = "binop"
        elif name == "sortby":
            g, gid = slot_obj(op[1])
            members = hp.groups[gid]
            lens = {hp.arrays[m]["len"] if m in hp.arrays else hp.arrays[hp.vectors[m][0]]["len"] for m in members.values()}
            if not members or len(lens) != 1:
                return ["disabled"], problems
            n = lens.pop()
            perm = list(np.roll(np.arange(n), 1)[::-1]) if n > 1 else [0]
            old_vals = {k: [np.asarray(c._array).copy() for c in (g[k]._xyz.values() if hasattr(g[k], "_xyz") else [g[k]])] for k in members}
            old_units = {k: [str(c.unit) for c in (g[k]._xyz.values() if hasattr(g[k], "_xyz") else [g[k]])] for k in members}
            try:
                g.sortby([int(i) for i in perm])
            except Exception as e:
                problems.append(("C17:sortby-raised:" + type(e).__name__, {"op": op}))
                return ["raised"], problems
            for k in list(members):
                comps = list(g[k]._xyz.values()) if hasattr(g[k], "_xyz") else [g[k]]
                for c, ov, ou in zip(comps, old_vals[k], old_units[k]):
                    if not np.array_equal(np.asarray(c._array), ov[perm]) or str(c.unit) != ou:
                        problems.append(("C17:sortby-wrong-member-values", {"key": k}))
                # sorting a group re-creates its members: objects shared with other containers are left alone
                m = members[k]
                members[k] = hp.copy_array(m) if m in hp.arrays else hp.copy_vector(m)
            ret = "sorted"
        elif name == "derive":
            how, src = op[1], op[2]
            obj, oid = slot_obj(src)
            if obj is None:
                return ["disabled"], problems
            SL = {"slice": slice(1, None), "slice_step": slice(None, None, 2), "slice_rev": slice(None, None, -1)}
            if how in SL and oid in hp.datasets:
                return ["disabled"], problems
            try:
                if how == "copy":
                    new = obj.copy()
                elif how == "copy.copy":
                    new = copy.copy(obj)
                elif how == "deepcopy":
                    new = copy.deepcopy(obj)
                elif how in SL:
                    new = obj[SL[how]]
                else:
                    raise KeyError(how)
            except Exception as e:
                problems.append((f"C17:{how}-raised:{type(e).__name__}", {"op": op}))
                return ["raised"], problems
            deep = how == "deepcopy" or oid in hp.arrays or oid in hp.vectors
            if how in SL:
                if oid in hp.arrays:
                    nid = hp.view(oid, SL[how])
                elif oid in hp.vectors:
                    nid = hp.new_id("v")
                    hp.vectors[nid] = [hp.view(c, SL[how]) for c in hp.vectors[oid]]
                else:
                    # slicing a Datagroup gives a new group whose members are views of the original members
                    nid = hp.new_id("g")
                    newm = {}
                    for k, m in hp.groups[oid].items():
                        if m in hp.arrays:
                            newm[k] = hp.view(m, SL[how])
                        else:
                            vid = hp.new_id("v")
                            hp.vectors[vid] = [hp.view(c, SL[how]) for c in hp.vectors[m]]
                            newm[k] = vid
                    hp.groups[nid] = newm
            elif oid in hp.arrays:
                nid = hp.copy_array(oid)
            elif oid in hp.vectors:
                nid = hp.copy_vector(oid)
            elif oid in hp.groups:
                nid = hp.new_id("g")
                hp.groups[nid] = {k: (hp.deep_member(m) if how == "deepcopy" else m) for k, m in hp.groups[oid].items()}
            else:
                nid = hp.new_id("d")
                if how == "deepcopy":
                    newg = {}
                    for k, g in hp.datasets[oid].items():
                        gid = hp.new_id("g")
                        hp.groups[gid] = {kk: hp.deep_member(m) for kk, m in hp.groups[g].items()}
                        newg[k] = gid
                    hp.datasets[nid] = newg
                else:
                    hp.datasets[nid] = dict(hp.datasets[oid])
            st.slots["X"] = new
            hp.slots["X"] = nid
            ret = how
        else:
            raise ValueError(op)

        # ---------------- global post-conditions
        after, pr = self.wrappers(st, hp)
        problems += pr
        by_id = {}
        for path, w, oid in after:
            by_id.setdefault(id(w), []).append((path, oid))
        # identity partition: two paths name the same wrapper iff the model gives them the same object id
        for wid, lst in by_id.items():
            if len({oid for _, oid in lst}) > 1:
                problems.append(("C17:distinct-model-objects-are-one-live-object", {"paths": [p for p, _ in lst]}))
        seen_model = {}
        for path, w, oid in after:
            if oid in seen_model and seen_model[oid] is not w:
                if oid in hp.loose:
                    # two holders of one vector that was updated in place: they may hold different wrapper objects, but they
                    # denote the same quantity
                    o = seen_model[oid]
                    (p1, d1, _t1), (p2, d2, _t2) = _arr.phys(o), _arr.phys(w)
                    if tuple(d1) != tuple(d2) or not np.array_equal(p1, p2) or str(o.dtype) != str(w.dtype):
                        problems.append(("C17:inplace-update-of-a-vector-not-observed-through-another-holder", {
                            "path": path, "after": op, "units": [str(o.unit), str(w.unit)], "values": [np.ravel(o.values).tolist(), np.ravel(w.values).tolist()]}))
                else:
                    problems.append(("C17:one-model-object-is-several-live-objects", {"path": path, "after": op}))
            seen_model[oid] = w
        # memory partition
        items = list(seen_model.items())
        for i in range(len(items)):
            for j in range(i + 1, len(items)):
                (o1, w1), (o2, w2) = items[i], items[j]
                a1, a2 = hp.arrays[o1], hp.arrays[o2]
                model_share = a1["buf"] == a2["buf"] and bool(set(a1["idx"]) & set(a2["idx"]))
                live_share = bool(np.shares_memory(w1._array, w2._array))
                if model_share != live_share:
                    kind = "unexpected-sharing" if live_share else "expected-view-is-a-copy"
                    problems.append((f"C17:memory-{kind}:{name}:{op[1] if len(op) > 1 else ''}", {"objects": [o1, o2], "after": op}))
        # frame: wrappers that existed before
        path_to_after = {path: (w, oid) for path, w, oid in after}
        tgt_raw = None
        for path, (s_before, raw_before, wid) in snap.items():
            if path not in path_to_after:
                continue
            w, oid = path_to_after[path]
            if id(w) != wid:
                continue  # the slot was rebound (v op= q): the new object is checked through the model
            a = hp.arrays[oid]
            if affected_buf and a["buf"] in affected_buf:
                if id(w) in target_paths:
                    continue
                # another wrapper of an updated buffer: raw numbers must follow the target on the overlap
                tw = [x for x in after if id(x[1]) in target_paths and hp.arrays[x[2]]["buf"] == a["buf"]]
                if tw:
                    t_w, t_a = tw[0][1], hp.arrays[tw[0][2]]
                    pos_t = {e: k for k, e in enumerate(t_a["idx"])}
                    mine_pos = [k for k, e in enumerate(a["idx"]) if e in pos_t]
                    if mine_pos:
                        mine = np.asarray(w._array)[mine_pos]
                        theirs = np.asarray(t_w._array)[[pos_t[a["idx"][k]] for k in mine_pos]]
                        if not np.array_equal(mine, theirs):
                            problems.append((f"C17:update-not-visible-through-alias:{_view_kind(a, t_a)}", {"path": path, "after": op}))
                        keep = np.ones(a["len"], dtype=bool)
                        keep[mine_pos] = False
                        if not np.array_equal(np.asarray(w._array)[keep], raw_before[keep]):
                            problems.append(("C17:update-leaked-outside-view", {"path": path, "after": op}))
                continue
            if _snap(w) != s_before:
                problems.append((f"C17:unrelated-object-changed:{name}", {"path": path, "after": op}))
        return [ret], problems


def make_spec(name, params):
    return Spec(params)


# ------------------------------------------------------------------ views of 1-, 2- and 3-dimensional members
# Differential model: plain ndarrays going through the same indexing and in-place updates. numpy's own rules say which index
# expressions give views (basic slices) and which give copies (index arrays, masks); the Array wrappers must behave alike.

VIEW_SHAPES = {"4": (4,), "3x4": (3, 4), "2x3x2": (2, 3, 2), "1x4": (1, 4), "4x1": (4, 1)}
VIEW_INDEX = {
    "4": ["[1:3]", "[::2]", "[::-1]", "[2:]", "[-2:]", "[[0, 2]]", "[mask]", "[1:2]"],
    "3x4": ["[:, 1:3]", "[:, 2:3]", "[::2]", "[:, ::-1]", "[1:]", "[1:, :2]", "[..., 0]", "[0]", "[:, 0]", "[::-1, ::2]", "[[0, 2]]", "[mask]", "[1]", "[:, 1::2]"],
    "2x3x2": ["[:, 1:]", "[..., 1]", "[1]", "[:, :, ::-1]", "[:, ::2, :1]", "[0, 1:]"],
    "1x4": ["[:, 1:3]", "[0]", "[:, ::2]"],
    "4x1": ["[1:3]", "[:, 0]", "[::2]"],
}
VIEW_UPDATES = ["orig*=2", "view*=2", "orig+=Q", "view+=Q", "orig-=A", "view/=2", "orig*=s", "view2*=2"]


def _index(expr, shape):
    mask = np.zeros(shape[0], dtype=bool)
    mask[::2] = True
    return eval("np.s_" + expr.replace("mask", "M"), {"np": np, "M": mask})


def views_cases(thorough):
    for sh, exprs in VIEW_INDEX.items():
        for expr in exprs:
            for holder in ("Array", "Datagroup", "Vector"):
                if holder == "Datagroup" and expr.startswith("[...") :
                    continue
                for dt in (("f8", "f4") if (thorough or sh == "3x4") else ("f8",)):
                    for u1 in VIEW_UPDATES:
                        yield {"block": "views", "shape": sh, "index": expr, "holder": holder, "dt": dt, "updates": [u1]}
                        for u2 in (VIEW_UPDATES if thorough else VIEW_UPDATES[:4]):
                            if u1.endswith("*=s"):
                                continue  # a unit-changing update comes last (a later += in the old unit is rightly refused)
                            yield {"block": "views", "shape": sh, "index": expr, "holder": holder, "dt": dt, "updates": [u1, u2]}


def run_views(acc, idx, c):
    import osyris

    A_, V_ = osyris.Array, osyris.Vector
    shape = VIEW_SHAPES[c["shape"]]
    dt = _arr.DTYPES[c["dt"]]
    ind = _index(c["index"], shape)
    n = int(np.prod(shape))
    base = (np.arange(n, dtype=np.float64) + 1.0).reshape(shape)
    ncomp = 2 if c["holder"] == "Vector" else 1
    refs = [(base * (k + 1)).astype(dt) for k in range(ncomp)]
    comps = [A_(r.copy(), unit="m") for r in refs]
    if c["holder"] == "Array":
        orig = comps[0]
        view = orig[ind]
        o_arrs, v_arrs = [orig], [view]
    elif c["holder"] == "Vector":
        orig = V_(*comps)
        view = orig[ind]
        o_arrs, v_arrs = list(orig._xyz.values()), list(view._xyz.values())
    else:
        g = osyris.Datagroup()
        g["a"] = comps[0]
        g2 = osyris.Datagroup()
        g2["b"] = comps[0]  # the same Array also stored in another group
        sub = g[ind]
        orig, view = g["a"], sub["a"]
        o_arrs, v_arrs = [g2["b"]], [view]
    try:
        rviews = [r[ind] for r in refs]
    except IndexError:
        return "skipped-invalid-index", False
    if any(np.ndim(rv) == 0 for rv in rviews):
        return "skipped-0d-result", False
    if len(v_arrs) != len(rviews) or any(np.shape(v._array) != rv.shape for v, rv in zip(v_arrs, rviews)):
        acc.violation("C17:views:shape-of-indexed-result", idx, c, {"got": [list(np.shape(v._array)) for v in v_arrs], "expected": [list(rv.shape) for rv in rviews]})
        return "violation", True
    view2 = rview2 = None
    Q = 50.0 * osyris.units("cm")  # = 0.5 m
    for k, up in enumerate(c["updates"]):
        target, opn = up[: up.index("=") - 1], up[up.index("=") - 1:]
        if target == "view2":
            # a view of the view
            try:
                view2 = view[0:1] if view2 is None else view2
                rview2 = [rv[0:1] for rv in rviews] if rview2 is None else rview2
            except Exception as e:
                acc.violation(f"C17:views:indexing-a-view-raised:{type(e).__name__}", idx, c, {})
                return "violation", True
        tobj = {"orig": orig, "view": view, "view2": view2}[target]
        trefs = {"orig": refs, "view": rviews, "view2": rview2}[target]
        try:
            with np.errstate(all="ignore"):
                if opn == "*=2":
                    tobj *= 2.0
                    for r in trefs:
                        r *= dt(2.0)
                elif opn == "/=2":
                    tobj /= 2.0
                    for r in trefs:
                        r /= dt(2.0)
                elif opn == "+=Q":
                    tobj += Q
                    for r in trefs:
                        r += dt(0.5)
                elif opn == "-=A":
                    sh_t = np.shape(trefs[0])
                    tobj -= A_(np.full(sh_t, 25.0), unit="cm")
                    for r in trefs:
                        r -= dt(0.25)
                elif opn == "*=s":
                    # unit-changing update: raw numbers double, the unit of the target becomes m*s
                    tobj *= A_(np.array(2.0), unit="s")
                    for r in trefs:
                        r *= dt(2.0)
        except Exception as e:
            acc.violation(f"C17:views:in-place-update-raised:{type(e).__name__}", idx, c, {"update": up, "step": k})
            return "violation", True
        if target == "orig" and c["holder"] == "Vector":
            # v op= q rebinds the name to a Vector whose components wrap the same data
            o_arrs = list(tobj._xyz.values())
            orig = tobj
        if target == "view" and c["holder"] == "Vector":
            v_arrs = list(tobj._xyz.values())
            view = tobj
        if target == "view2" and c["holder"] == "Vector":
            view2 = tobj
        for which, live, ref in (("original", o_arrs, refs), ("view", v_arrs, rviews)):
            for L, R in zip(live, ref):
                if np.shape(L._array) != R.shape or not np.allclose(np.asarray(L._array, dtype=np.float64), R.astype(np.float64), rtol=2e-6 if dt == np.float32 else 1e-13, atol=0):
                    kind = "view" if np.shares_memory(R, refs[0]) or np.shares_memory(R, refs[-1]) else "copy"
                    acc.violation(f"C17:views:{which}-differs-from-numpy-semantics:after-update-of-{target}:numpy-{kind}", idx, c,
                                  {"step": k, "update": up, "got": np.asarray(L._array).ravel()[:6].tolist(), "expected": R.ravel()[:6].tolist()})
                    return "violation", True
    shares = bool(np.shares_memory(rviews[0], refs[0]))
    live_shares = bool(np.shares_memory(v_arrs[0]._array, o_arrs[0]._array))
    if shares != live_shares:
        acc.violation("C17:views:" + ("numpy-view-is-a-copy" if shares else "numpy-copy-shares-memory"), idx, c, {})
        return "violation", True
    return "ok", True


# ------------------------------------------------------------------ 0-d Arrays updated in place

def scalar_cases(thorough):
    for opn in ("iadd", "isub", "imul", "itruediv"):
        for yk in ("float", "Q_cm", "A_s", "A_cm_0d", "nd0", "A3_cm"):
            if opn in ("iadd", "isub") and yk in ("float", "A_s", "nd0"):
                continue  # a pure number or seconds cannot be added to metres
            for dt in ("f8", "f4"):
                for holder in ("bare", "two-groups"):
                    for shape in ("0d", "1"):
                        if yk == "A3_cm" and shape == "0d":
                            continue  # the result would not fit into the 0-d destination
                        yield {"block": "scalar", "op": opn, "y": yk, "dt": dt, "holder": holder, "shape": shape}


def run_scalar(acc, idx, c):
    import osyris

    A_ = osyris.Array
    dt = _arr.DTYPES[c["dt"]]
    x = A_(np.array(3.0 if c["shape"] == "0d" else [3.0], dtype=dt), unit="m")
    alias = x
    g1, g2 = osyris.Datagroup(), osyris.Datagroup()
    if c["holder"] == "two-groups":
        g1["t"] = x
        g2["t2"] = x
    y, yphys, ydims = {
        "float": (2.0, 2.0, M2.dims_of()), "Q_cm": (50.0 * osyris.units("cm"), 50.0, M2.dims_of(cm=1)), "A_s": (A_(np.array(2.0), unit="s"), 2.0, M2.dims_of(s=1)),
        "A_cm_0d": (A_(np.array(50.0), unit="cm"), 50.0, M2.dims_of(cm=1)), "nd0": (np.array(2.0), 2.0, M2.dims_of()),
        "A3_cm": (A_(np.array([50.0]), unit="cm"), 50.0, M2.dims_of(cm=1)),
    }[c["y"]]
    P, dP = 300.0, M2.dims_of(cm=1)
    want = {"iadd": P + yphys, "isub": P - yphys, "imul": P * yphys, "itruediv": P / yphys}[c["op"]]
    wd = dP if c["op"] in ("iadd", "isub") else tuple(a + (b if c["op"] == "imul" else -b) for a, b in zip(dP, ydims))
    try:
        if c["holder"] == "two-groups":
            r = IOPS[c["op"]](g1["t"], y)
            g1["t"] = r
        else:
            r = IOPS[c["op"]](x, y)
    except Exception as e:
        acc.violation(f"C17:scalar:in-place-update-raised:{type(e).__name__}", idx, c, {})
        return "violation", True
    out = "ok"
    if r is not alias:
        acc.violation(f"C17:scalar:updated-Array-is-a-new-object:{'0-d' if c['shape'] == '0d' else '1-element'}", idx, c, {})
        out = "violation"
    seen = [("alias", alias)] + ([("other-group", g2["t2"])] if c["holder"] == "two-groups" else [])
    for name, ref in seen:
        got, gd, gt = _arr.phys(ref)
        if tuple(gd) != tuple(wd) or not _arr.close(got, want, _arr.eps_for(dt) + gt):
            acc.violation(f"C17:scalar:update-not-seen-through-{name}:{'0-d' if c['shape'] == '0d' else '1-element'}", idx, c,
                          {"shows": repr(ref)[:80], "expected_cgs": float(want), "expected_dims": [str(q) for q in wd]})
            out = "violation"
    return out, True


def scalar_work(payload):
    acc = Acc()
    for idx, c in my_share(scalar_cases(payload["tier"] == "thorough"), payload):
        out, nt = run_scalar(acc, idx, c)
        acc.case(nontrivial=nt, outcome=out)
    return acc


def views_work(payload):
    acc = Acc()
    thorough = payload["tier"] == "thorough"
    for idx, c in my_share(views_cases(thorough), payload):
        out, nontrivial = run_views(acc, idx, c)
        acc.case(nontrivial=nontrivial, outcome=out)
        if idx % 2003 == 0:
            acc.sample(c)
    return acc


def ops_for(thorough):
    ops = [["store", "A0", "G0", "a"], ["store", "A0", "G1", "a"], ["store", "V0", "G0", "v"], ["store", "X", "G1", "x"],
           ["store_group", "G0", "g"]]
    pairs = [("iadd", "compat"), ("imul", "float"), ("itruediv", "compat"), ("isub", "incompat"), ("imul", "other_dim"), ("iadd", "Qnd_compat"), ("imul", "nd"), ("imul", "inverse_compat")]
    if thorough:
        pairs = [(o, q) for o in IOPS for q in QS]
    for tgt in ("A0", "V0", "X", "G0[a]"):
        for o, q in pairs:
            ops.append(["inplace", tgt, o, q])
    for how, src in [("copy", "A0"), ("copy.copy", "A0"), ("deepcopy", "A0"), ("slice", "A0"), ("copy", "V0"), ("deepcopy", "V0"),
                     ("slice", "V0"), ("copy", "G0"), ("deepcopy", "G0"), ("copy", "DS"), ("deepcopy", "DS"), ("copy.copy", "V0"),
                     ("copy.copy", "G0"), ("slice_step", "A0"), ("slice_rev", "A0"), ("slice_step", "V0"), ("slice_step", "X"), ("slice", "X")]:
        ops.append(["derive", how, src])
    ops.append(["sortby", "G0"])
    ops.append(["sortby", "G1"])
    # a persistent right operand in another unit: used, modified in place, used again
    for o in ("add", "mul", "lt"):
        ops.append(["binop", "A0", o, "A1"])
    ops.append(["binop", "A1", "add", "A0"])
    for o, q in (("imul", "float"), ("imul", "other_dim"), ("iadd", "compat")):
        ops.append(["inplace", "A1", o, q])
    return ops


def run(ctx):
    from ..runner import Acc

    covs, accs = [], []
    depth = 4 if ctx.thorough else 3
    und = 2
    for dt in (["f8", "f4"] if ctx.thorough else ["f8"]):
        cov, acc = history.explore(ctx.pool, MOD, "heap", {"ops": ops_for(ctx.thorough and dt == "f8" and False), "dtype": dt}, depth, und)
        covs.append(cov)
        accs.append(acc)
    if not ctx.thorough:
        # float32 data with float64 operands: the result dtype is wider than the destination
        cov, acc = history.explore(ctx.pool, MOD, "heap", {"ops": ops_for(False), "dtype": "f4"}, 2, 2)
        covs.append(cov)
        accs.append(acc)
    if ctx.thorough:
        cov, acc = history.explore(ctx.pool, MOD, "heap", {"ops": ops_for(True), "dtype": "f8"}, 3, 2)
        covs.append(cov)
        accs.append(acc)
    av = Acc.merged(ctx.pool.shards(MOD, "views_work", ctx.base()) + ctx.pool.shards(MOD, "scalar_work", ctx.base(), nshards=2))
    acc = Acc.merged(accs + [av])
    cov = {
        "views_cases": av.evaluations,
        "views_outcomes": dict(av.outcomes),
        "states": sum(c["states"] for c in covs),
        "transitions": sum(c["transitions"] for c in covs),
        "traces_validated_against_impl": sum(c["transitions"] for c in covs),
        "samples": covs[0]["samples"],
        "runs": [{k: v for k, v in c.items() if k != "samples"} for c in covs],
        "exhaustive": True,
        "rule": "BFS over store / in-place (4 operators x operand kinds on an Array, a Vector, a derived object and a group member) / "
        "copy / copy.copy / deepcopy / slice operations; canonical state = structure, values, units, identity classes and "
        "shared-memory pairs of all reachable wrappers",
    }
    return {"level": LEVEL, "coverage": cov, "violations": acc.violation_list(), "errors": acc.errors,
            "assumptions": ["a slice is a separate wrapper: it must show the same raw numbers as the data it views, its unit label is not "
                            "required to follow a unit-changing update made through another wrapper",
                            "a Vector updated in place need not remain the same object, but every holder of it must show the updated values and unit",
                            "1-d operands in the heap exploration (0-d operands are the subject of the scalar block)",
                            "M2 unit table for the value of x op y"]}


def replay_sigs(case):
    if case.get("block") == "views":
        acc = Acc()
        run_views(acc, 0, case)
        return list(acc.violations.keys())
    if case.get("block") == "scalar":
        acc = Acc()
        run_scalar(acc, 0, case)
        return list(acc.violations.keys())
    return [s for s, _ in history.replay_case(case)]

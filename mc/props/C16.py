"""C16 — sub-domain extraction returns exactly the rows inside the region.

E1: datasets with groups {mesh with positions, a group without positions but of the mesh's shape, particles
with their own positions, a group of another shape, a scalar-only group} whose rows sit on the dyadic
lattice {0,1/4,1/2,3/4,1}^3 (so that boundary membership is exact), every origin of a sub-lattice, radii /
box sizes from {0, 1/4, 1/2, 1, 2} given in the position unit or another one, as Array or Quantity;
brute-force membership in exact arithmetic; plus a dataset produced by the real loader (M1).
"""
import itertools
from fractions import Fraction

import numpy as np

from ..models import ramses as M1
from ..models import units as M2
from ..runner import Acc, my_share
from . import _arr, _load, C13

LEVEL = "exploration"
MOD = "mc.props.C16"

LAT = [0.0, 0.25, 0.5, 0.75, 1.0]
SIZES = [0.0, 0.25, 0.5, 1.0, 2.0]


def build_dataset(kind, pos_unit):
    """-> (dataset, spec) ; spec: group -> dict(positions ndarray (n,3) in pos_unit or None, uses_mesh bool, n)"""
    import osyris

    A_, V_, DG, DS = osyris.Array, osyris.Vector, osyris.Datagroup, osyris.Dataset
    pts = np.array(list(itertools.product(LAT, repeat=3)))
    if kind == "small":
        pts = pts[::7]
    n = len(pts)
    ds = DS()
    ds.meta = {"time": 3.0, "note": "meta must be carried over", "ndim": 3}
    mesh = DG()
    mesh["position"] = V_(pts[:, 0].copy(), pts[:, 1].copy(), pts[:, 2].copy(), unit=pos_unit)
    mesh["tag"] = A_(np.arange(n, dtype=np.float64), unit="g")
    mesh["vel"] = V_(np.arange(n) + 0.5, np.arange(n) + 1000.5, np.arange(n) + 2000.5, unit="km/s")
    ds["mesh"] = mesh
    hydro = DG()
    hydro["density"] = A_(np.arange(n, dtype=np.float64) + 5000, unit="g/cm**3")
    hydro["B"] = V_(np.arange(n) + 0.25, np.arange(n) + 100.25, np.arange(n) + 200.25, unit="G")
    ds["hydro"] = hydro
    ppts = np.array(list(itertools.product([0.0, 0.5, 1.0], [0.25, 0.75], [0.0, 0.5, 1.0])))
    part = DG()
    part["position"] = V_(ppts[:, 0].copy(), ppts[:, 1].copy(), ppts[:, 2].copy(), unit=pos_unit)
    part["mass"] = A_(np.arange(len(ppts), dtype=np.float64) + 7000, unit="M_sun")
    part["id"] = A_(np.arange(len(ppts), dtype=np.int64), unit="dimensionless")
    ds["part"] = part
    # a group with its own positions that happens to have as many rows as the mesh (its positions differ)
    tpts = pts[::-1].copy()
    tr = DG()
    tr["position"] = V_(tpts[:, 0].copy(), tpts[:, 1].copy(), tpts[:, 2].copy(), unit=pos_unit)
    tr["age"] = A_(np.arange(n, dtype=np.float64) + 9000, unit="yr")
    ds["tracers"] = tr
    # a group whose own positions are written in another length unit than those of the groups before it (exact factor)
    small = {"m": ("cm", 100.0), "cm": ("mm", 10.0)}[pos_unit]
    dust = DG()
    dust["position"] = V_(ppts[:, 0] * small[1], ppts[:, 1] * small[1], ppts[:, 2] * small[1], unit=small[0])
    dust["size"] = A_(np.arange(len(ppts), dtype=np.float64) + 300, unit="cm")
    ds["dust"] = dust
    spec = {"mesh": (pts, n), "hydro": (pts, n), "part": (ppts, len(ppts)), "tracers": (tpts, n), "dust": (ppts, len(ppts))}
    if kind == "regrouped":
        # a second dataset assembled from the groups of the first one, with a mesh of its own (other positions): the position-less
        # group now belongs to the second dataset and follows ITS mesh
        ds2 = DS()
        ds2.meta = dict(ds.meta)
        pts2 = pts[::-1].copy()
        mesh2 = DG()
        mesh2["position"] = V_(pts2[:, 0].copy(), pts2[:, 1].copy(), pts2[:, 2].copy(), unit=pos_unit)
        mesh2["tag"] = A_(np.arange(n, dtype=np.float64) + 50000, unit="g")
        ds2["mesh"] = mesh2
        ds2["hydro"] = ds["hydro"]
        ds2["part"] = ds["part"]
        return ds2, {"mesh": (pts2, n), "hydro": (pts2, n), "part": (ppts, len(ppts))}
    if kind in ("copied", "copy.copy"):
        # a shallow copy of the dataset whose mesh is then replaced by another one (other positions): the copy's position-less
        # group follows the mesh of the dataset that is extracted from - the copy
        import copy as _copy

        ds2 = ds.copy() if kind == "copied" else _copy.copy(ds)
        pts2 = pts[::-1].copy()
        mesh2 = DG()
        mesh2["position"] = V_(pts2[:, 0].copy(), pts2[:, 1].copy(), pts2[:, 2].copy(), unit=pos_unit)
        mesh2["tag"] = A_(np.arange(n, dtype=np.float64) + 50000, unit="g")
        ds2["mesh"] = mesh2
        for g in ("tracers", "dust"):
            del ds2[g]
        return ds2, {"mesh": (pts2, n), "hydro": (pts2, n), "part": (ppts, len(ppts))}
    if kind in ("full", "small"):
        other = DG()
        other["q"] = A_(np.arange(4, dtype=np.float64), unit="s")
        ds["othershape"] = other
        spec["othershape"] = (None, 4)
    return ds, spec


PYTHAGOREAN = [(1, 2, 2, 3), (2, 3, 6, 7), (1, 4, 8, 9), (4, 4, 7, 9), (2, 6, 9, 11), (6, 6, 7, 11), (3, 4, 12, 13), (2, 10, 11, 15),
               (2, 5, 14, 15), (8, 9, 12, 17), (4, 8, 19, 21), (12, 12, 21, 27), (5, 6, 30, 31)]


def run_pythagorean(acc, idx, c):
    """All sign/axis permutations of (a,b,c) around the origin, plus points one unit inside and outside."""
    import itertools as it

    import osyris

    a, b, cc, r = c["quad"]
    o = np.array(c["origin"], dtype=float)
    pts = set()
    for perm in set(it.permutations((a, b, cc))):
        for sg in it.product((1, -1), repeat=3):
            pts.add(tuple(p * s for p, s in zip(perm, sg)))
    on = np.array(sorted(pts), dtype=float)
    inside = on * np.array([1.0, 1.0, 0.0]) + np.array([0.0, 0.0, 1.0]) * np.sign(on[:, 2:3].ravel())[:, None] * (np.abs(on[:, 2:3]) - 1)
    outside = on + np.sign(on) * np.array([0.0, 0.0, 1.0])
    allp = np.concatenate([on, inside, outside]) + o
    n = len(allp)
    ds = osyris.Dataset()
    g = osyris.Datagroup()
    g["position"] = osyris.Vector(allp[:, 0].copy(), allp[:, 1].copy(), allp[:, 2].copy(), unit=c["pos_unit"])
    g["tag"] = osyris.Array(np.arange(n, dtype=float), unit="g")
    ds["mesh"] = g
    f = {"m": 1.0, "cm": 0.01}[c["pos_unit"]] / {"m": 1.0, "cm": 0.01}[c["arg_unit"]]
    d2 = np.sum((allp - o) ** 2, axis=1)
    keep = d2 < r * r  # exact: all integers
    # the radius must still be exactly r after conversion to the position unit, otherwise "on the surface" is not what
    # is being asked (0.07 m is not 7 cm in binary floating point)
    if float(osyris.Array(float(r) * f, unit=c["arg_unit"]).to(c["pos_unit"]).values) != float(r):
        return "skipped-inexact-conversion", False
    try:
        sub = osyris.extract_sphere(ds, radius=osyris.Array(float(r) * f, unit=c["arg_unit"]), origin=osyris.Vector(*o, unit=c["pos_unit"]))
    except Exception as e:
        acc.violation(f"C16:extract-sphere-raised:{type(e).__name__}", idx, c, {"error": repr(e)[:200]})
        return "raises", True
    got = set(np.asarray(sub["mesh"]["tag"].values).astype(int).tolist()) if "mesh" in sub else set()
    want = set(np.flatnonzero(keep).tolist())
    if got != want:
        extra, missing = sorted(got - want), sorted(want - got)
        on_surface = [i for i in extra if d2[i] == r * r]
        sig = "C16:rows-differ:sphere:row-on-surface-included" if on_surface else "C16:rows-differ:sphere:boundary"
        acc.violation(sig, idx, c, {"extra": extra[:5], "missing": missing[:5], "example_offset": (allp[extra[0]] - o).tolist() if extra else None})
        return "violation", True
    return "ok", True


def region_arg(val, unit, form):
    import osyris

    if form == "Array":
        return osyris.Array(val, unit=unit)
    return val * osyris.units(unit)


def snapshot_ds(ds):
    return {"groups": C13.snapshot(ds), "meta": repr(sorted(ds.meta.items(), key=lambda kv: kv[0])), "keys": list(ds.keys())}


def expected_keep(kind, pts, origin, size):
    """exact membership; pts, origin, size(s) in the same unit as floats that are exact dyadics"""
    F = Fraction
    keep = []
    for p in pts:
        d = [F(float(a)) - F(float(o)) for a, o in zip(p, origin)]
        if kind == "sphere":
            keep.append(sum(x * x for x in d) < F(float(size)) ** 2)
        else:
            keep.append(all(abs(x) <= F(float(s)) / 2 for x, s in zip(d, size)))
    return np.array(keep, dtype=bool)


def check_result(acc, idx, c, kind, ds, spec, before, sub, origin, size):
    import osyris

    problems = []
    if not isinstance(sub, osyris.Dataset) or sub is ds:
        return [("result-not-a-new-dataset", {})]
    if snapshot_ds(ds) != before:
        problems.append(("input-dataset-modified", {}))
    if repr(sorted(sub.meta.items(), key=lambda kv: kv[0])) != before["meta"]:
        problems.append(("meta-not-carried-over", {"meta": repr(sub.meta)[:200]}))
    full = before["groups"]
    for gname, (pts, n) in spec.items():
        if pts is None:
            if gname in sub:
                problems.append(("group-without-positions-returned", {"group": gname}))
            continue
        keep = expected_keep(kind, pts, origin, size)
        if not keep.any():
            if gname in sub and len(sub[gname]) and sub[gname].shape != (0,):
                problems.append((f"empty-group-not-omitted", {"group": gname}))
            elif gname in sub:
                problems.append((f"empty-group-not-omitted", {"group": gname}))
            continue
        if gname not in sub:
            problems.append(("group-missing", {"group": gname, "expected_rows": int(keep.sum())}))
            continue
        got = C13.snapshot(sub)[gname]
        want = {}
        for k, e in full[gname].items():
            if e[0] == "A":
                want[k] = ("A", e[1], np.asarray(e[2])[keep].tolist())
            else:
                want[k] = ("V", {cn: (u, np.asarray(v)[keep].tolist()) for cn, (u, v) in e[1].items()})
        if set(got) != set(want):
            problems.append(("variables-differ", {"group": gname, "got": sorted(got), "expected": sorted(want)}))
            continue
        for k in want:
            if got[k] != want[k]:
                gv = got[k][2] if got[k][0] == "A" else next(iter(got[k][1].values()))[1]
                if not isinstance(gv, list):
                    # a single selected row came back as a 0-d value: the row is not a row any more
                    problems.append((f"rows-differ:{kind}:single-row-returned-as-0-d", {"group": gname, "variable": k, "expected_rows": int(keep.sum())}))
                    break
                g_rows = len(gv)
                boundary = "boundary" if g_rows != int(keep.sum()) else "alignment-or-unit"
                problems.append((f"rows-differ:{kind}:{boundary}", {"group": gname, "variable": k, "got_rows": g_rows, "expected_rows": int(keep.sum())}))
                break
    for gname in sub.keys():
        if gname not in spec:
            problems.append(("unexpected-group", {"group": gname}))
    if not problems:
        # composition: the result is a new dataset, so working on it in place (recentring, rescaling) must not reach the input
        for gname in list(sub.keys()):
            for k in list(sub[gname].keys()):
                v = sub[gname][k]
                try:
                    v *= 2.0
                except Exception:
                    pass
        if snapshot_ds(ds) != before:
            problems.append(("input-changed-by-in-place-work-on-the-result", {"rows_inside": {g: int(expected_keep(kind, pts, origin, size).sum()) for g, (pts, n) in spec.items() if pts is not None}}))
    return problems


def cases(thorough):
    origins = list(itertools.product([0.0, 0.5, 1.0], [0.25, 0.5], [0.0, 0.75])) if not thorough else list(itertools.product(LAT[::2], LAT[1::2] + [0.5], LAT[::2]))
    forms = ["Array", "Quantity"]
    units = [("m", "m"), ("m", "cm"), ("cm", "m")]
    for (pu, ru) in units:
        for form in forms:
            for o in origins:
                for r in SIZES:
                    yield {"fn": "sphere", "pos_unit": pu, "arg_unit": ru, "form": form, "origin": list(o), "size": r, "ds": "full"}
                for s in itertools.product([0.0, 0.5, 2.0] if not thorough else SIZES, repeat=3):
                    if not thorough and len(set(s)) == 3:
                        continue
                    yield {"fn": "box", "pos_unit": pu, "arg_unit": ru, "form": form, "origin": list(o), "size": list(s), "ds": "full"}
    # the three sizes of a box each in a unit of its own
    for pu in ("m", "cm"):
        for axis_units in (("m", "cm", "m"), ("cm", "m", "m"), ("m", "m", "cm"), ("cm", "cm", "m"), ("cm", "m", "cm")):
            for form in forms:
                for o in origins[::3]:
                    for s in ([0.5, 0.5, 0.5], [2.0, 0.5, 2.0], [0.5, 2.0, 2.0], [2.0, 2.0, 0.5]):
                        yield {"fn": "box", "pos_unit": pu, "arg_unit": axis_units[0], "axis_units": list(axis_units), "form": form, "origin": list(o), "size": s, "ds": "full"}
    # sizes written in compound length units (a velocity times a time, a length times a ratio of lengths); off-lattice sizes, so that no
    # point lies on the surface and the inexact factor of such units cannot decide a membership
    for cu in ("km/s*Myr", "pc*cm/au", "km*s/yr"):
        for o in origins[::3]:
            for form in forms:
                yield {"fn": "sphere", "pos_unit": "m", "arg_unit": cu, "form": form, "origin": list(o), "size": 0.55, "ds": "full"}
                yield {"fn": "box", "pos_unit": "cm", "arg_unit": cu, "form": form, "origin": list(o), "size": [0.6, 1.1, 0.35], "ds": "full"}
    for o in origins[::2]:
        for r in (0.5, 1.0):
            yield {"fn": "sphere", "pos_unit": "m", "arg_unit": "cm", "form": "Array", "origin": list(o), "size": r, "ds": "regrouped"}
            yield {"fn": "box", "pos_unit": "m", "arg_unit": "m", "form": "Quantity", "origin": list(o), "size": [r, 2.0, r], "ds": "regrouped"}
            for dk in ("copied", "copy.copy"):
                yield {"fn": "sphere", "pos_unit": "m", "arg_unit": "m", "form": "Array", "origin": list(o), "size": r, "ds": dk}
                yield {"fn": "box", "pos_unit": "m", "arg_unit": "cm", "form": "Array", "origin": list(o), "size": [r, 2.0, r], "ds": dk}
    for ndim in (3,):
        for fn in ("sphere", "box"):
            for r in (0.0, 0.5, 4.0):
                yield {"fn": fn, "ds": "loader", "size": r}
    # integer positions at an exactly integer (off-axis) distance from the origin: on the sphere surface -> excluded
    for quad in PYTHAGOREAN:
        for origin in ([0, 0, 0], [1, -2, 3]):
            for pu, ru in (("cm", "cm"), ("m", "cm"), ("cm", "m")):
                yield {"fn": "sphere", "ds": "pythagorean", "quad": list(quad), "origin": origin, "pos_unit": pu, "arg_unit": ru}


def run_case(acc, idx, c):
    import osyris

    if c["ds"] == "loader":
        return run_loader_case(acc, idx, c)
    if c["ds"] == "pythagorean":
        return run_pythagorean(acc, idx, c)
    ds, spec = build_dataset(c["ds"], c["pos_unit"])
    before = snapshot_ds(ds)
    scale = {"m": 1.0, "cm": 0.01}
    if c["arg_unit"] not in scale:
        # a compound unit: its size in metres, from the model's own reading of the string
        scale[c["arg_unit"]] = M2.info_of_string(c["arg_unit"])[0] / 100.0
    # size / origin are specified in position units (exact dyadics), expressed in arg_unit for the call
    f = scale[c["pos_unit"]] / scale[c["arg_unit"]]
    origin = osyris.Vector(*[np.float64(x) for x in c["origin"]], unit=c["pos_unit"])
    try:
        if c["fn"] == "sphere":
            sub = osyris.extract_sphere(ds, radius=region_arg(c["size"] * f, c["arg_unit"], c["form"]), origin=origin)
        else:
            axu = c.get("axis_units", [c["arg_unit"]] * 3)
            args = [region_arg(s * scale[c["pos_unit"]] / scale[u], u, c["form"]) for s, u in zip(c["size"], axu)]
            sub = osyris.extract_box(ds, dx=args[0], dy=args[1], dz=args[2], origin=origin)
    except Exception as e:
        import warnings

        acc.violation(f"C16:extract-{c['fn']}-raised:{type(e).__name__}", idx, c, {"error": repr(e)[:200]})
        return "raises", True
    problems = check_result(acc, idx, c, c["fn"], ds, spec, before, sub, c["origin"], c["size"])
    for sig, det in problems:
        acc.violation("C16:" + sig, idx, c, det)
    return ("ok" if not problems else "violation"), True


def run_loader_case(acc, idx, c):
    import osyris

    tree = M1.Tree(3, 2, [(1, (0, 0, 0)), (1, (1, 1, 1))])
    out = M1.Output(tree, ncpu=1, boxlen=1.0, unit_l=1.0, hydro="rvp")
    out.part = M1.make_part(M1.part_descriptor(3), [4])
    out.sink = M1.make_sink(3, 2)
    with _load.Scratch() as d:
        out.write(d)
        ds, _ = _load.load(d, out.nout)
    before = C13.snapshot(ds)
    origin = osyris.Vector(0.5, 0.5, 0.5, unit="cm")
    r = osyris.Array(c["size"], unit="cm")
    try:
        with __import__("warnings").catch_warnings():
            __import__("warnings").simplefilter("ignore")
            sub = osyris.extract_sphere(ds, radius=r, origin=origin) if c["fn"] == "sphere" else osyris.extract_box(ds, dx=r, dy=r, dz=r, origin=origin)
    except Exception as e:
        acc.violation(f"C16:extract-{c['fn']}-raised-on-loaded-dataset:{type(e).__name__}", idx, c, {"error": repr(e)[:200]})
        return "raises", True
    if C13.snapshot(ds) != before:
        acc.violation("C16:input-dataset-modified", idx, c, {})
    # membership on the loaded mesh: positions in cm
    pos = np.stack([np.asarray(before["mesh"]["position"][1][k][1]) for k in "xyz"], axis=1)
    keep = expected_keep(c["fn"], pos, [0.5, 0.5, 0.5], c["size"] if c["fn"] == "sphere" else [c["size"]] * 3)
    got_n = len(C13.snapshot(sub).get("mesh", {}).get("level", ("A", "", []))[2]) if "mesh" in sub else 0
    if got_n != int(keep.sum()):
        acc.violation("C16:loaded-dataset-row-count", idx, c, {"got": got_n, "expected": int(keep.sum())})
        return "violation", True
    return "ok", True


def work(payload):
    import warnings

    warnings.simplefilter("ignore")
    acc = Acc()
    thorough = payload["tier"] == "thorough"
    for idx, c in my_share(cases(thorough), payload):
        out, nontrivial = run_case(acc, idx, c)
        acc.case(nontrivial=nontrivial, outcome=out)
        if idx % 1501 == 0:
            acc.sample(c)
    return acc


def run(ctx):
    acc = Acc.merged(ctx.pool.shards(MOD, "work", ctx.base()))
    cov = {
        "evaluations": acc.evaluations,
        "distinct_nontrivial": acc.nontrivial,
        "rule": "product: {sphere, box} x origin lattice x radius/size lattice {0,1/4,1/2,1,2} (per axis for boxes) x (position unit, "
        "argument unit) in {(m,m),(m,cm),(cm,m)} x {Array, Quantity} on a 6-group dataset whose 125 mesh rows and 18 particle rows lie "
        "on dyadic lattices; plus a loader-produced dataset; all cases distinct by construction and all non-trivial (rows on the boundary)",
        "samples": acc.samples,
        "exhaustive": True,
        "outcomes": dict(acc.outcomes),
    }
    return {"level": LEVEL, "coverage": cov, "violations": acc.violation_list(), "errors": acc.errors,
            "assumptions": ["3-D positions (extract_box names dx, dy, dz)", "positions, origins and sizes are dyadic so that membership on "
                            "the boundary is exact in floating point; the oracle uses exact rationals"]}


def replay_sigs(case):
    import warnings

    warnings.simplefilter("ignore")
    acc = Acc()
    run_case(acc, 0, case)
    return list(acc.violations.keys())

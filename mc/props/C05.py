"""C05 — the 2-D histogram bins every point exactly once, independent of thread schedule.

E3 (schedules): thread bodies derived from the current source of osyris.plot.utils.hist2d; for harnesses
with 2-3 virtual threads, <= 2 iterations per thread, 1-2 value layers and points forced into one bin /
two bins / disjoint bins, every partition of the iterations and every interleaving of the loads and stores
of the shared accumulators is executed (preemption bounds 0, 1, 2 first, then the full enumeration); every
final (out, counts) must equal the sequential one.
E1 (inputs): the compiled kernel on every placement of 0..2 points (3-4 with a deviation bound) over an
alphabet of positions around each limit and each bin edge, NaN and +-inf, for resolutions 1-4 and two
ranges; the public histogram2d on explicit/automatic limits, linear/log axes, 0-2 layers, sum/mean.
"""
import itertools
import math
import os

import numpy as np

from ..engines import schedules as S
from ..runner import Acc, my_share

LEVEL = "model_checking"
MOD = "mc.props.C05"


# ------------------------------------------------------------------ E3 harnesses


def harnesses(thorough):
    """name -> (args for hist2d, iterations, max threads)"""
    H = {}

    def mk(name, xs, ys, nlayers, nx=2, ny=2, T=2):
        x, y = np.array(xs, dtype=float), np.array(ys, dtype=float)
        vals = np.array([[float(10 ** (l + 1) * (i + 1)) for i in range(len(xs))] for l in range(nlayers)]).reshape(nlayers, len(xs))
        H[name] = ((x, y, vals, 0.0, 1.0, nx, 0.0, 1.0, ny), len(xs), T)

    mk("2pts-same-bin-1layer", [0.1, 0.2], [0.1, 0.2], 1)
    mk("2pts-same-bin-2layers", [0.1, 0.2], [0.1, 0.2], 2)
    mk("2pts-different-bins", [0.1, 0.7], [0.1, 0.7], 1)
    mk("2pts-same-column-different-rows", [0.1, 0.2], [0.1, 0.7], 1)
    mk("2pts-one-out-of-range", [0.1, 1.5], [0.1, 0.2], 1)
    mk("3pts-same-bin-3threads", [0.1, 0.2, 0.3], [0.1, 0.2, 0.3], 1, T=3)
    mk("3pts-two-in-one-bin", [0.1, 0.7, 0.2], [0.1, 0.7, 0.2], 1, T=3)
    mk("4pts-same-bin-2threads", [0.1, 0.2, 0.3, 0.4], [0.1, 0.2, 0.3, 0.4], 1)
    mk("4pts-two-bins-2threads", [0.1, 0.7, 0.2, 0.8], [0.1, 0.7, 0.2, 0.8], 1)
    mk("4pts-disjoint-bins", [0.1, 0.7, 0.1, 0.7], [0.1, 0.1, 0.7, 0.7], 1)
    mk("1pt", [0.1], [0.1], 1)
    mk("0pts", [], [], 1)
    # vacuity guard: a kernel that hands whole blocks of points to its threads has a single iteration on the tiny
    # inputs above. These inputs are only explored when the kernel's parallel loop has 2..4 iterations on them
    # (a per-point loop has thousands and is covered by the tiny inputs instead). Integer-valued weights: exact sums.
    for n in ((1 << 11, 1 << 13, 1 << 14, 3 * 4096 + 1) + ((1 << 16, 1 << 17) if thorough else ())):
        i = np.arange(n)
        xs = (i % 97) / 97.0 * 0.4 + 0.05
        ys = (i % 89) / 89.0 * 0.4 + 0.05
        x, y = xs.astype(float), ys.astype(float)
        vals = ((i % 7) + 1.0).reshape(1, n)
        H[f"scaled-{n}pts-one-bin"] = ((x, y, vals, 0.0, 1.0, 2, 0.0, 1.0, 2), n, 3 if thorough else 2)
    if thorough:
        mk("4pts-same-bin-2layers", [0.1, 0.2, 0.3, 0.4], [0.1, 0.2, 0.3, 0.4], 2)
        mk("3pts-same-bin-2layers-3threads", [0.1, 0.2, 0.3], [0.1, 0.2, 0.3], 2, T=3)
        mk("4pts-same-bin-3threads", [0.1, 0.2, 0.3, 0.4], [0.1, 0.2, 0.3, 0.4], 1, T=3)
        mk("6pts-two-bins-3threads-bounded", [0.1, 0.7, 0.2, 0.8, 0.3, 0.9], [0.1, 0.7, 0.2, 0.8, 0.3, 0.9], 1, T=3)
    return H


FULL_LIMIT = 60000  # a harness/partition with more interleavings than this is explored preemption-bounded only


def kernel():
    from osyris.plot import utils as U

    return S.rewrite(U.hist2d)


def e3_plan(thorough):
    """One task per harness; partitions are derived inside the worker from the iterations the kernel's parallel
    loop actually has (they need not be the points: a kernel may loop over blocks)."""
    fn, info = kernel()
    return [{"h": hname} for hname in harnesses(thorough)], info


def est_interleavings(points_per_thread):
    n = sum(points_per_thread)
    r = math.factorial(n)
    for k in points_per_thread:
        r //= math.factorial(k)
    return r


def same(res, seq):
    return all(np.array_equal(a, b) for a, b in zip(res, seq))


def e3_work(payload):
    """Explore a batch of harnesses (phase 1) or subtrees of full enumerations (phase 2)."""
    acc = Acc()
    fn, info = kernel()
    thorough = payload["tier"] == "thorough"
    H = harnesses(thorough)
    for t in payload["tasks"]:
        args, npts, Tmax = H[t["h"]]
        ref, _ = S.run_sequential(fn, info, args, nthreads=1)

        def check(res, ref=ref):
            if same(res, ref):
                return None
            return {"out": np.asarray(res[0]).tolist(), "counts": np.asarray(res[1]).tolist(),
                    "one_thread_out": np.asarray(ref[0]).tolist(), "one_thread_counts": np.asarray(ref[1]).tolist()}

        if t.get("phase", 1) == 2:
            part, T = t["partition"], t["T"]
            case = {"kind": "schedule", "harness": t["h"], "partition": part, "threads": T}
            out = S.explore_subtree(fn, info, args, part, t["prefix"], None, check, root_only_if=t.get("root_only", False), nthreads=T)
            acc.count("executions", out["executions"])
            acc.count("choice_points", out["executions"] * out["max_choices"])
            acc.count("full_enumeration_executions", out["executions"])
            for sched, d in [f for f in out["failures"] if f]:
                acc.violation("C05:schedule-dependent-result:lost-update", (2, 0), dict(case, schedule=sched, preemption_bound=None), d)
            acc.case(nontrivial=True, outcome="enumerated-full-subtree")
            acc.counters["distinct_final_states"] = max(acc.counters["distinct_final_states"], len(out["outcomes"]))
            continue
        if not info["parallel"]:
            acc.case(nontrivial=False, outcome="kernel-not-parallel")
            acc.count("executions")
            continue
        for T in range(2, Tmax + 1):
            # one thread running all iterations, with numba reporting T threads
            seqT, s0 = S.run_sequential(fn, info, args, nthreads=T)
            acc.count("executions")
            if not same(seqT, ref):
                acc.violation("C05:result-depends-on-thread-count", (0, T), {"kind": "schedule", "harness": t["h"], "partition": [], "threads": T, "schedule": []}, check(seqT))
            iters = getattr(s0, "iterations", [])
            if t["h"].startswith("scaled-") and not (2 <= len(iters) <= 4):
                acc.case(nontrivial=False, outcome="scaled-input-not-needed:iterations=" + ("1" if len(iters) < 2 else "many"))
                continue
            conf = S.conflicts(s0)
            for part in [sorted(p) for p in S.set_partitions(iters, T)]:
                case = {"kind": "schedule", "harness": t["h"], "partition": part, "threads": T}
                if len(part) <= 1:
                    continue
                cross = S.cross_conflicts(s0, part, T)
                ppt = [sum(len(s0.accesses_of(s0.main_region, i)) for i in p) + 1 for p in part]
                if not cross:
                    # conflict certificate: no element is written by an iteration of one thread and read or written by
                    # an iteration of another, so all interleavings are equivalent; run one and compare
                    res, s = S.run_threads(fn, info, args, part, [], nthreads=T)
                    acc.case(nontrivial=True, outcome="conflict-free-certificate")
                    acc.count("executions")
                    acc.count("conflict_free_partitions")
                    d = check(res)
                    if d:
                        acc.violation("C05:schedule-dependent-result:conflict-free-input", (0, 0), dict(case, schedule=[]), d)
                    continue
                total = est_interleavings(ppt)
                found = False
                for b in (0, 1, 2):
                    out = S.explore_subtree(fn, info, args, part, [], b, check, nthreads=T)
                    acc.count("executions", out["executions"])
                    acc.count("choice_points", out["executions"] * out["max_choices"])
                    for sched, d in [f for f in out["failures"] if f]:
                        acc.violation("C05:schedule-dependent-result:lost-update", (1, b), dict(case, schedule=sched, preemption_bound=b), d)
                        found = True
                    acc.counters["bound_completed:" + str(b)] += 1
                    acc.counters["distinct_final_states"] = max(acc.counters["distinct_final_states"], len(out["outcomes"]))
                    if found:
                        break
                acc.case(nontrivial=True, outcome="violation-at-bound" if found else "enumerated-bound-2")
                acc.sample({"harness": t["h"], "threads": T, "partition": part, "interleavings_estimated": total, "executions_at_last_bound": out["executions"],
                            "distinct_final_states": len(out["outcomes"]), "conflicts": [list(map(str, c)) for c in cross[:3]]}, limit=4)
                if not found:
                    acc.need_full = getattr(acc, "need_full", []) + [{"h": t["h"], "partition": part, "T": T, "total": total}]
    return acc


def e3_replay(case):
    fn, info = kernel()
    H = harnesses(True)
    args, npts, Tmax = H[case["harness"]]
    ref, _ = S.run_sequential(fn, info, args, nthreads=1)
    if not info["parallel"]:
        return []
    T = case.get("threads", max(1, len(case["partition"])))
    if not case["partition"]:
        seqT, _ = S.run_sequential(fn, info, args, nthreads=T)
        return [] if same(seqT, ref) else ["C05:result-depends-on-thread-count"]
    res, s = S.run_threads(fn, info, args, case["partition"], case["schedule"], nthreads=T)
    if same(res, ref):
        return []
    return ["C05:schedule-dependent-result:" + ("lost-update" if case["schedule"] else "conflict-free-input")]


# ------------------------------------------------------------------ E1: compiled kernel


def axis_alphabet(lo, w, n):
    hi = lo + n * w
    eps = w / 1024.0
    vals = [lo - 1.5 * w, lo - 0.5 * w, lo - eps, lo, lo + eps]
    vals += [lo + (k + 0.5) * w for k in range(n)]
    vals += [lo + k * w for k in range(1, n)]
    vals += [hi - eps, hi, hi + eps, hi + w, float("nan"), float("inf"), float("-inf")]
    return vals


def ref_bin(v, lo, w, n):
    """-> set of allowed bins (None = not counted)"""
    if not math.isfinite(v):
        return {None}
    hi = lo + n * w
    if v < lo:
        return {None}
    if v > hi:
        return {None}
    if v == hi:
        return {None, n - 1}
    return {min(int(math.floor((v - lo) / w)), n - 1)}


RANGES = [(0.0, 1.0), (-2.0, 0.5)]  # (lower limit, bin width): both exact in binary


def kernel_cases(thorough):
    for (lo, w) in RANGES:
        for nx in (1, 2, 3, 4):
            for ny in ((1, 2, 3, 4) if thorough else (1, 3)):
                ax, ay = axis_alphabet(lo, w, nx), axis_alphabet(lo, w, ny)
                yield {"lo": lo, "w": w, "nx": nx, "ny": ny, "pts": []}
                for x in ax:
                    for y in ay:
                        yield {"lo": lo, "w": w, "nx": nx, "ny": ny, "pts": [[x, y]]}
                # two points: reduced alphabet, full product
                rx = [lo - 0.5 * w, lo, lo + 0.5 * w, lo + nx * w - w / 1024.0, lo + nx * w, float("nan")]
                ry = [lo - 0.5 * w, lo, lo + 0.5 * w, lo + ny * w - w / 1024.0, lo + ny * w, float("inf")]
                for p1 in itertools.product(rx, ry):
                    for p2 in itertools.product(rx, ry):
                        yield {"lo": lo, "w": w, "nx": nx, "ny": ny, "pts": [list(p1), list(p2)]}
                # 3-4 points: a baseline of interior points with <= 2 coordinates deviating
                base = [[lo + 0.5 * w, lo + 0.5 * w]] * 4
                for npts in (3, 4):
                    for (i, j) in itertools.combinations(range(2 * npts), 2):
                        for vi in rx[:5]:
                            for vj in ry[:5]:
                                pts = [list(p) for p in base[:npts]]
                                pts[i // 2][i % 2] = vi
                                pts[j // 2][j % 2] = vj
                                yield {"lo": lo, "w": w, "nx": nx, "ny": ny, "pts": pts}


def run_kernel_case(acc, idx, c):
    from osyris.plot.utils import hist2d

    lo, w, nx, ny = c["lo"], c["w"], c["nx"], c["ny"]
    pts = c["pts"]
    x = np.array([p[0] for p in pts], dtype=np.float64)
    y = np.array([p[1] for p in pts], dtype=np.float64)
    vals = np.array([[float(i + 1) for i in range(len(pts))], [float(100 * (i + 1)) for i in range(len(pts))]]).reshape(2, len(pts))
    out, counts = hist2d(x, y, vals, lo, lo + nx * w, nx, lo, lo + ny * w, ny)
    # reference: every combination of allowed placements must include the observed one
    allowed = []
    for (px, py) in pts:
        bx, by = ref_bin(px, lo, w, nx), ref_bin(py, lo, w, ny)
        opts = set()
        for a in bx:
            for b in by:
                opts.add(None if (a is None or b is None) else (b, a))
        allowed.append(opts)
    ok = False
    for combo in itertools.product(*allowed) if allowed else [()]:
        ec = np.zeros((ny, nx), dtype=np.int64)
        eo = np.zeros((2, ny, nx))
        for i, place in enumerate(combo):
            if place is not None:
                ec[place] += 1
                eo[:, place[0], place[1]] += vals[:, i]
        if np.array_equal(ec, counts) and np.array_equal(eo, out):
            ok = True
            break
    if not ok:
        below = any((p[0] < lo and p[0] > lo - w) or (p[1] < lo and p[1] > lo - w) for p in pts if all(math.isfinite(v) for v in p))
        sig = "C05:kernel-misbins-point-just-below-lower-limit" if below else "C05:kernel-wrong-binning"
        acc.violation(sig, idx, dict(c, kind="kernel"), {"counts": counts.tolist(), "out": out.tolist()})
        return "violation"
    if int(counts.sum()) > len(pts):
        acc.violation("C05:kernel-total-not-conserved", idx, dict(c, kind="kernel"), {})
    return "ok"


def kernel_work(payload):
    acc = Acc()
    thorough = payload["tier"] == "thorough"
    for idx, c in my_share(kernel_cases(thorough), payload):
        out = run_kernel_case(acc, idx, c)
        acc.case(nontrivial=len(c["pts"]) > 0, outcome=out)
        if idx % 50021 == 0:
            acc.sample(dict(c, kind="kernel"))
    return acc


# ------------------------------------------------------------------ E1: public API


def api_cases(thorough):
    datasets = {
        "spread": ([0.5, 1.5, 2.5, 2.5, 3.75], [10.0, 20.0, 20.0, 40.0, 80.0]),
        "all-equal": ([2.0, 2.0, 2.0], [5.0, 5.0, 5.0]),
        "all-zero": ([0.0, 0.0], [0.0, 0.0]),
        "with-nonfinite": ([0.5, float("nan"), 2.5, float("inf"), 3.0], [10.0, 20.0, float("nan"), 40.0, 80.0]),
        "one-point": ([1.25], [3.0]),
        "negatives": ([-1.0, 0.5, 2.0, 4.0], [1.0, 2.0, 4.0, 8.0]),
        # every point exactly on a cell edge of the explicit grid [0.25, 4.25] x [0.5, 128.5] at resolution 4 and 2
        "on-edges": ([0.25, 1.25, 2.25, 3.25, 1.25, 2.25], [0.5, 32.5, 64.5, 96.5, 64.5, 32.5]),
    }
    for dname in datasets:
        for limits in ("auto", "explicit", "explicit-quantity", "explicit-tight", "half", "explicit-np-f4", "explicit-tight-np-i8", "explicit-np-0d", "explicit-tight-pyint",
                       "explicit-quantity-np-f4"):
            for log in ("lin", "logx", "loglog"):
                for res in (1, 2, 4):
                    for layers in ("none", "one-sum", "one-mean", "two-mixed", "call-mean", "layer-sum-call-mean"):
                        if not thorough and res == 1 and layers not in ("none", "one-mean"):
                            continue
                        yield {"kind": "api", "data": dname, "limits": limits, "log": log, "res": res, "layers": layers, "xy": datasets[dname]}
    # large offsets and small magnitudes: the same points moved by 2^45 (span / magnitude ~ 1e-13) or scaled by 2^-30 (span ~ 4e-9): a range
    # is degenerate only if its limits are equal, not if they are close on some absolute or relative scale
    for xform in ({"xoff": 2.0**45}, {"xscale": 2.0**-30}, {"xoff": -(2.0**40), "yscale": 2.0**-40}):
        for limits in ("auto", "explicit", "explicit-tight", "half"):
            for layers in ("none", "one-mean"):
                for res in (2, 4):
                    yield dict({"kind": "api", "data": "spread", "limits": limits, "log": "lin", "res": res, "layers": layers, "xy": datasets["spread"]}, **xform)
    for mixed in ("int-then-float", "f4-then-f8", "float-then-int", "bool-then-float"):
        for limits in ("auto", "explicit"):
            for layers in ("two-mixed", "call-mean", "layer-sum-call-mean"):
                yield {"kind": "api", "data": "spread", "limits": limits, "log": "lin", "res": 4, "layers": layers, "xy": datasets["spread"], "mixed": mixed}
    # element types of the data: float32 and integer coordinates and weights (all values exactly representable)
    for dt in ("f4", "i8", "i4"):
        xy = datasets["spread"] if dt == "f4" else ([1, 2, 3, 3, 4], [10, 20, 20, 40, 80])
        for limits in ("auto", "explicit", "explicit-tight"):
            for log in ("lin", "loglog"):
                for layers in ("none", "one-mean", "two-mixed"):
                    yield {"kind": "api", "data": "spread-" + dt, "limits": limits, "log": log, "res": 4, "layers": layers, "xy": xy, "dtype": dt}
    # a call that is refused part-way (its second layer has another length than the coordinates), then the same call done right, with as
    # many layers and the same resolution: nothing of the refused call is found in it
    for dname in ("spread", "negatives", "all-equal"):
        for limits in ("auto", "explicit"):
            for layers in ("two-mixed", "call-mean", "layer-sum-call-mean"):
                for res in (2, 4):
                    yield {"kind": "api", "data": dname, "limits": limits, "log": "lin", "res": res, "layers": layers, "xy": datasets[dname], "after_refused": True}
    # layers that carry options of the 1-d histogram (weights, bins), e.g. made with group.layer(key, bins=..., weights=...) and used for
    # both kinds of histogram, and the same options given to the call: a 2-d histogram layer is the per-bin sum or mean of its values
    for dname in ("spread", "negatives"):
        for limits in ("auto", "explicit"):
            for layers in ("one-sum+layer-weights", "one-mean+layer-weights", "two-mixed+layer-weights", "none+call-weights", "one-mean+call-weights", "one-sum+call-bins"):
                for res in (2, 4):
                    yield {"kind": "api", "data": dname, "limits": limits, "log": "lin", "res": res, "layers": layers, "xy": datasets[dname]}


def run_api_case(acc, idx, c):
    import osyris

    A_, L_ = osyris.Array, osyris.core.layer.Layer
    xs, ys = np.array(c["xy"][0], dtype=float), np.array(c["xy"][1], dtype=float)
    xoff, xsc, ysc = c.get("xoff", 0.0), c.get("xscale", 1.0), c.get("yscale", 1.0)
    xs, ys = xs * xsc + xoff, ys * ysc
    logx = c["log"] in ("logx", "loglog")
    logy = c["log"] == "loglog"
    dt = {"f4": np.float32, "i8": np.int64, "i4": np.int32}.get(c.get("dtype"), np.float64)
    x, y = A_(xs.astype(dt), unit="cm", name="x"), A_(ys.astype(dt), unit="g", name="y")
    v1 = A_(np.arange(1.0, len(xs) + 1).astype(dt), unit="K", name="v1")
    v2 = A_((np.arange(1.0, len(xs) + 1) * 100).astype(dt), unit="s", name="v2")
    if c.get("mixed"):
        # layers of different element types in one call: each layer is binned with its own values
        t1, t2 = {"int-then-float": (np.int64, np.float64), "f4-then-f8": (np.float32, np.float64), "float-then-int": (np.float64, np.int32),
                  "bool-then-float": (np.bool_, np.float64)}[c["mixed"]]
        a1 = np.arange(1.0, len(xs) + 1)
        a1 = (a1 % 2 == 1) if t1 is np.bool_ else a1.astype(t1)
        a2 = np.arange(1.0, len(xs) + 1) * 100 + (0.5 if t2 is np.float64 else 0.0)
        v1 = A_(a1, unit="K" if t1 is not np.bool_ else "dimensionless", name="v1")
        v2 = A_(a2.astype(t2), unit="s", name="v2")
    kw = {}
    ex = None
    if c["limits"].startswith("explicit") or c["limits"] == "half":
        ex = {"xmin": 0.25, "xmax": 4.25, "ymin": 0.5, "ymax": 128.5} if "tight" not in c["limits"] else {"xmin": 1.0, "xmax": 3.0, "ymin": 15.0, "ymax": 45.0}
        ex = {k: (v * xsc + xoff if k[0] == "x" else v * ysc) for k, v in ex.items()}
        if c["limits"] == "half":
            ex = {"xmin": ex["xmin"], "ymax": ex["ymax"]}
        # the same limits given as other number types (all values are exactly representable in each of them)
        conv = {"explicit-np-f4": np.float32, "explicit-tight-np-i8": np.int64, "explicit-np-0d": np.array, "explicit-tight-pyint": int,
                "explicit-quantity-np-f4": np.float32}.get(c["limits"], float)
        for k, v in ex.items():
            if c["limits"].startswith("explicit-quantity"):
                kw[k] = conv(v) * osyris.units("cm" if k[0] == "x" else "g")
            else:
                kw[k] = conv(v)
        if c["limits"] == "explicit-quantity":
            kw["xmin"] = (ex["xmin"] / 100.0) * osyris.units("m")
    ops = []
    layers = []
    call_op = None
    lay, _, h1opt = c["layers"].partition("+")
    wts = A_(np.arange(2.0, len(xs) + 2.0) * 1.5, unit="g", name="w")
    lopt = {"weights": wts, "bins": 5} if h1opt == "layer-weights" else {}
    if h1opt == "call-weights":
        kw["weights"] = wts
    elif h1opt == "call-bins":
        kw["bins"] = 5
    if lopt:
        _L = L_

        def L_(data, **k):
            return _L(data, **dict(k, **lopt))

    if lay == "one-sum":
        layers, ops = [L_(v1, operation="sum")], ["sum"]
    elif lay == "one-mean":
        layers, ops = [L_(v1, operation="mean")], ["mean"]
    elif lay == "two-mixed":
        layers, ops = [L_(v1, operation="mean"), v2], ["mean", "sum"]
    elif lay == "call-mean":
        layers, ops, call_op = [v1, L_(v2)], ["mean", "mean"], "mean"
    elif lay == "layer-sum-call-mean":
        layers, ops, call_op = [L_(v1, operation="sum"), v2], ["sum", "mean"], "mean"
    if call_op:
        kw["operation"] = call_op
    if c["limits"] == "half":
        fx, fy = xs[np.isfinite(xs)], ys[np.isfinite(ys)]
        if fx.size == 0 or fy.size == 0 or fx.max() <= ex["xmin"] or fy.min() >= ex["ymax"]:
            return "skipped-inverted-range"
    with np.errstate(all="ignore"):
        tx = np.log10(xs) if logx else xs
        ty = np.log10(ys) if logy else ys
    finite = np.isfinite(tx) & np.isfinite(ty)
    if c.get("after_refused") and len(layers) == 2 and len(xs) > 1:
        short = A_(np.arange(1.0, len(xs)), unit="s", name="short")  # one value too few
        try:
            with np.errstate(all="ignore"):
                osyris.histogram2d(x, y, layers[0], short, logx=logx, logy=logy, resolution=c["res"], plot=False, **kw)
            acc.violation("C05:histogram2d-accepted-a-layer-of-another-length", idx, c, {})
        except Exception:
            pass
    try:
        with np.errstate(all="ignore"):
            p = osyris.histogram2d(x, y, *layers, logx=logx, logy=logy, resolution=c["res"], plot=False, **kw)
    except Exception as e:
        auto_axes = c["limits"] in ("auto", "half")
        if auto_axes and (not np.any(np.isfinite(tx)) or not np.any(np.isfinite(ty))):
            return "raises-no-range"
        acc.violation(f"C05:histogram2d-raised:{type(e).__name__}", idx, c, {"error": repr(e)[:200]})
        return "raises"
    nx = ny = c["res"]
    xc, yc = np.asarray(p.x, dtype=float), np.asarray(p.y, dtype=float)
    if len(xc) != nx or len(yc) != ny:
        acc.violation("C05:histogram2d-grid-size", idx, c, {"nx": len(xc), "ny": len(yc)})
        return "violation"

    def edges(centres, n, log, lo_hi):
        if lo_hi is not None:
            lo, hi = lo_hi
            if log:
                return np.logspace(np.log10(lo), np.log10(hi), n + 1)
            return np.linspace(lo, hi, n + 1)
        if n == 1:
            return None
        if log:
            r = centres[1] / centres[0]
            e0 = 2 * centres[0] / (1 + r)
            return e0 * r ** np.arange(n + 1)
        d = centres[1] - centres[0]
        return np.concatenate([[centres[0] - d / 2], centres + d / 2])

    xe = edges(xc, nx, logx, (ex["xmin"], ex["xmax"]) if ex and "xmin" in ex and "xmax" in ex else None)
    ye = edges(yc, ny, logy, (ex["ymin"], ex["ymax"]) if ex and "ymin" in ex and "ymax" in ex else None)
    # a limit that was requested is the edge of the grid on that side, whether or not the opposite limit was given too
    if ex:
        for key, e_, side in (("xmin", xe, 0), ("xmax", xe, -1), ("ymin", ye, 0), ("ymax", ye, -1)):
            if key in ex and e_ is not None and not np.isclose(e_[side], ex[key], rtol=1e-9, atol=0):
                acc.violation(f"C05:histogram2d-requested-limit-not-honoured:{'both-limits-given' if (key[0] + ('max' if key.endswith('min') else 'min')) in ex else 'opposite-limit-automatic'}",
                              idx, c, {"limit": key, "requested": ex[key], "grid_edge": float(e_[side])})
                return "violation"
    data = [np.ma.getdata(l["data"]) for l in p.layers]
    masks = [np.ma.getmaskarray(l["data"]) for l in p.layers]
    nlay = max(1, len(layers))
    if len(p.layers) != nlay:
        acc.violation("C05:histogram2d-layer-count", idx, c, {"got": len(p.layers)})
        return "violation"
    if xe is None or ye is None:
        # a single bin on an automatic axis: everything finite must be in it
        if c["limits"] == "auto" and lay == "none":
            tot = float(np.sum(np.where(masks[0], 0, data[0])))
            if tot != float(finite.sum()):
                acc.violation("C05:histogram2d-total-not-conserved", idx, c, {"total": tot, "finite_points": int(finite.sum())})
                return "violation"
        return "ok-coarse"
    # expected placement with an ambiguity band at the edges
    span_x, span_y = abs(xe[-1] - xe[0]), abs(ye[-1] - ye[0])

    exact_grid = c["data"] == "on-edges" and c["limits"] in ("explicit", "explicit-quantity") and not (logx or logy)

    def place(v, e, span):
        if not np.isfinite(v):
            return {None}
        s = set()
        # with dyadic explicit limits the edges and the offsets are exact: a point on an edge belongs to the upper cell
        tol = 0.0 if exact_grid else 1e-9 * max(span, abs(v))
        if exact_grid:
            for k in range(len(e) - 1):
                if e[k] <= v < e[k + 1]:
                    return {k}
            return {None}
        for k in range(len(e) - 1):
            if e[k] - tol <= v <= e[k + 1] + tol:
                if e[k] + tol <= v <= e[k + 1] - tol:
                    return {k}
                s.add(k)
        if v < e[0] + tol or v > e[-1] - tol:
            s.add(None)
        return s or {None}

    opts = []
    for i in range(len(xs)):
        if not finite[i]:
            opts.append({None})
            continue
        px, py = place(xs[i], xe, span_x), place(ys[i], ye, span_y)
        opts.append({None if (a is None or b is None) else (b, a) for a in px for b in py})
    if c["limits"] == "auto" and any(None in o and len(o) == 1 for o, f in zip(opts, finite) if f):
        acc.violation("C05:histogram2d-automatic-range-excludes-a-finite-point", idx, c, {"xedges": xe.tolist(), "yedges": ye.tolist()})
        return "violation"
    vals = [np.ones(len(xs))] if not layers else [np.asarray(v1.values, dtype=float), np.asarray(v2.values, dtype=float)][:nlay]
    ops = ops or ["sum"]
    ok = False
    for combo in itertools.product(*opts):
        cnt = np.zeros((ny, nx))
        sums = np.zeros((nlay, ny, nx))
        for i, pl in enumerate(combo):
            if pl is not None:
                cnt[pl] += 1
                for l in range(nlay):
                    sums[l][pl] += vals[l][i]
        good = True
        for l in range(nlay):
            exp = sums[l] / np.where(cnt == 0, 1, cnt) if ops[l] == "mean" else sums[l]
            if not np.array_equal(masks[l], cnt == 0) or not np.allclose(np.where(cnt == 0, 0, data[l]), np.where(cnt == 0, 0, exp), rtol=1e-12, atol=0):
                good = False
                break
        if good:
            ok = True
            break
    if not ok:
        acc.violation(f"C05:histogram2d-wrong-bins:{'log' if (logx or logy) else 'lin'}:{c['limits']}:{'mean' if 'mean' in ops else 'sum'}", idx, c,
                      {"data": [d.tolist() for d in data], "masks": [m.tolist() for m in masks], "xedges": xe.tolist(), "yedges": ye.tolist()})
        return "violation"
    return "ok"


def api_work(payload):
    acc = Acc()
    thorough = payload["tier"] == "thorough"
    for idx, c in my_share(api_cases(thorough), payload):
        out = run_api_case(acc, idx, c)
        acc.case(nontrivial=True, outcome=out)
        if idx % 701 == 0:
            acc.sample({k: v for k, v in c.items() if k != "xy"})
    return acc


# ------------------------------------------------------------------ thread-count ladder on the compiled kernel

LADDER = r'''
import sys, json, numpy as np
sys.path.insert(0, sys.argv[1])
sizes = json.loads(sys.argv[2]); threads = json.loads(sys.argv[3])
from osyris.plot.utils import hist2d
import numba
maxt = numba.config.NUMBA_NUM_THREADS
out = []
for n in sizes:
    i = np.arange(n, dtype=np.int64)
    x = ((i * 7919) % 1009) / 1009.0 * 1.2 - 0.1      # some points fall outside [0, 1)
    y = ((i * 104729) % 997) / 997.0 * 1.2 - 0.1
    v = np.stack([np.ones(n), ((i % 7) + 1).astype(np.float64)])   # integer-valued: sums are exact in any order
    numba.set_num_threads(1)
    ref = hist2d(x, y, v, 0.0, 1.0, 4, 0.0, 1.0, 3)
    for k in threads:
        if k > maxt:
            continue
        numba.set_num_threads(k)
        runs = [hist2d(x, y, v, 0.0, 1.0, 4, 0.0, 1.0, 3) for _ in range(3)]
        same_as_ref = [bool(np.array_equal(r[0], ref[0]) and np.array_equal(r[1], ref[1])) for r in runs]
        stable = all(np.array_equal(r[0], runs[0][0]) and np.array_equal(r[1], runs[0][1]) for r in runs)
        out.append({"n": int(n), "threads": int(k), "same_as_one_thread": same_as_ref, "stable": bool(stable),
                    "total": int(runs[0][1].sum()), "total_one_thread": int(ref[1].sum())})
print("LADDER" + json.dumps(out))
'''

LADDER_SIZES = [0, 1, 2, 3, 17] + [2**k + 1 for k in range(10, 21)] + [100003, 720721, 1000003]
LADDER_THREADS = [2, 3, 5, 7, 16]


def run_ladder(sizes, threads):
    import json
    import subprocess
    import sys

    from ..runner import repo_root

    env = dict(os.environ, NUMBA_NUM_THREADS="16")
    p = subprocess.run([sys.executable, "-c", LADDER, os.path.join(repo_root(), "src"), json.dumps(sizes), json.dumps(threads)],
                       env=env, capture_output=True, text=True, timeout=1200)
    line = [l for l in p.stdout.splitlines() if l.startswith("LADDER")]
    if not line:
        raise RuntimeError("ladder subprocess failed: " + (p.stdout + p.stderr)[-500:])
    return json.loads(line[0][6:])


def ladder_work(payload):
    """The compiled kernel for every (size, thread count) of the ladder against its own 1-thread result. A deterministic
    difference is a violation; an unstable one (results change from run to run) is reported as corroboration only,
    because it could not be replayed - the schedule exploration is what decides races."""
    acc = Acc()
    sizes = payload.get("sizes", LADDER_SIZES)
    res = run_ladder(sizes, payload.get("threads", LADDER_THREADS))
    for idx, r in enumerate(res):
        bad = not all(r["same_as_one_thread"])
        acc.case(nontrivial=r["n"] > 1, outcome="differs" if bad else "same")
        if bad and r["stable"]:
            acc.violation("C05:compiled-kernel-result-depends-on-thread-count", idx, {"kind": "ladder", "n": r["n"], "threads": r["threads"]},
                          {"total": r["total"], "total_one_thread": r["total_one_thread"]})
        elif bad:
            acc.count("unstable_results_corroboration_only")
    acc.sample({"kind": "ladder", "sizes": sizes, "threads": LADDER_THREADS})
    return acc


# ------------------------------------------------------------------ driver


def env_work(payload):
    """every 5th public-API case and every 3rd kernel case, inside another interpreter environment"""
    acc = Acc()
    k = 0
    for idx, c in enumerate(api_cases(False)):
        # (finite coordinates only: with the JIT switched off the kernel's int() of a NaN or an infinity raises where compiled code
        #  goes on; that debugging mode is not what the statement is about, so only what both modes define is compared there)
        if c["data"] == "with-nonfinite" or (c["log"] != "lin" and c["data"] in ("all-zero", "negatives")):
            continue
        k += 1
        if k % 5 == 0:
            out = run_api_case(acc, idx, c)
            acc.case(nontrivial=True, outcome=out)
    return acc


def environment_replay(payload):
    return replay_sigs(payload["case"])


def run(ctx):
    from ..runner import EnvironmentRuns

    envruns = EnvironmentRuns(MOD, "env_work", ctx.base(), ("NUMBA_DISABLE_JIT=1", "python-O"))
    phase = {}
    t0 = ctx.timer()
    tasks, info = e3_plan(ctx.thorough)
    # phase 1: conflict certificates and preemption bounds 0,1,2 for every (harness, partition)
    nshard = ctx.pool.n * 2
    batches = [[] for _ in range(nshard)]
    for i, t in enumerate(tasks):
        batches[i % nshard].append(t)
    parts = ctx.pool.map(MOD, "e3_work", [ctx.base(tasks=b) for b in batches if b])
    need_full = [x for a in parts for x in getattr(a, "need_full", [])]
    a3 = Acc.merged(parts)
    # phase 2: full enumeration where phase 1 found nothing, split into disjoint subtrees
    fn, _ = kernel()
    H = harnesses(ctx.thorough)
    sub, skipped_full = [], []
    for nf in need_full:
        if nf["total"] > FULL_LIMIT:
            skipped_full.append(nf)
            continue
        args = H[nf["h"]][0]
        res, sch = S.run_threads(fn, info, args, nf["partition"], [], nthreads=nf["T"])
        kids = S.children_of(sch.trace, 0, None)
        sub.append({"h": nf["h"], "partition": nf["partition"], "T": nf["T"], "phase": 2, "prefix": [], "root_only": True})
        for k in kids:
            sub.append({"h": nf["h"], "partition": nf["partition"], "T": nf["T"], "phase": 2, "prefix": k})
    if sub:
        batches = [[] for _ in range(nshard * 4)]
        for i, t in enumerate(sub):
            batches[i % len(batches)].append(t)
        a3 = Acc.merged([a3] + ctx.pool.map(MOD, "e3_work", [ctx.base(tasks=b) for b in batches if b]))
    phase["schedules"] = round(ctx.timer() - t0, 2)
    t0 = ctx.timer()
    ak = Acc.merged(ctx.pool.shards(MOD, "kernel_work", ctx.base()))
    phase["kernel_inputs"] = round(ctx.timer() - t0, 2)
    t0 = ctx.timer()
    aa = Acc.merged(ctx.pool.shards(MOD, "api_work", ctx.base()))
    phase["api_inputs"] = round(ctx.timer() - t0, 2)
    t0 = ctx.timer()
    al = Acc.merged(ctx.pool.map(MOD, "ladder_work", [ctx.base(sizes=LADDER_SIZES[i::4]) for i in range(4)]))
    phase["thread_count_ladder"] = round(ctx.timer() - t0, 2)
    acc = Acc.merged([a3, ak, aa, al] + envruns.results())
    execs = a3.counters.get("executions", 0)
    cov = {
        "states": max(1, execs),
        "transitions": max(1, a3.counters.get("choice_points", 0) + execs),
        "traces_validated_against_impl": execs,
        "samples": (a3.samples[:3] + ak.samples[:1] + aa.samples[:1]) or [{}],
        "rule": "states = complete interleavings executed (one terminal state of the stateless search each), transitions = scheduling "
        "decisions taken; thread bodies are derived from the current source of hist2d and run on Python threads under a baton scheduler",
        "kernel_parallel": info["parallel"],
        "regions": info["regions"],
        "schedules_executed": execs,
        "harnesses": len(tasks),
        "conflict_free_partitions": a3.counters.get("conflict_free_partitions", 0),
        "bounds_completed": {k.split(":")[1]: v for k, v in a3.counters.items() if k.startswith("bound_completed")},
        "max_distinct_final_states_in_one_harness": a3.counters.get("distinct_final_states", 0),
        "full_enumeration_limit": FULL_LIMIT,
        "fully_enumerated_partitions": len(need_full) - len(skipped_full),
        "full_enumeration_executions": a3.counters.get("full_enumeration_executions", 0),
        "partitions_beyond_full_limit_explored_to_preemption_bound_2_only": [x["h"] for x in skipped_full],
        "preemption_bound": 2,
        "schedule_outcomes": dict(a3.outcomes),
        "evaluations": acc.evaluations,
        "distinct_nontrivial": acc.nontrivial,
        "kernel_input_cases": ak.evaluations,
        "api_input_cases": aa.evaluations,
        "api_outcomes": dict(aa.outcomes),
        "thread_count_ladder": {"sizes": LADDER_SIZES, "threads": LADDER_THREADS, "compiled_runs_compared": al.evaluations,
                                "outcomes": dict(al.outcomes), "unstable_results_corroboration_only": al.counters.get("unstable_results_corroboration_only", 0)},
        "exhaustive": True,
        "phase_wall_s": phase,
    }
    return {"level": LEVEL, "coverage": cov, "violations": acc.violation_list(), "errors": acc.errors,
            "assumptions": ["schedule exploration is on source-derived thread bodies under sequentially consistent memory at element granularity, "
                            "not on numba's compiled threads; whether the region is parallel is read from the real dispatcher",
                            "a point exactly on the upper limit may be counted in the last bin or not at all; automatic limits with no finite point may raise",
                            "thread-count ladder: the compiled kernel is run with numba.set_num_threads(k) for every (size, k) of the ladder on "
                            "integer-valued data (sums exact in any order); only differences that are identical in three runs are verdicts"]}


def replay_sigs(case):
    if case.get("environment"):
        from ..runner import replay_in_environment

        return replay_in_environment(MOD, case)
    if case.get("kind") == "schedule":
        return e3_replay(case)
    if case.get("kind") == "ladder":
        return list(ladder_work({"sizes": [case["n"]], "threads": [case["threads"]]}).violations.keys())
    acc = Acc()
    if case.get("kind") == "kernel":
        run_kernel_case(acc, 0, case)
    else:
        run_api_case(acc, 0, case)
    return list(acc.violations.keys())

"""Shared helpers for the Array/Vector properties (C02 C07 C08 C09 C10 C17)."""
import numpy as np

from ..models import units as M2

DTYPES = {"f8": np.float64, "f4": np.float32, "i8": np.int64, "i4": np.int32}

# unit families: every member is a unit string osyris.units() understands
FAMILIES = {
    "length": ["cm", "m", "km", "au", "pc", "R_sun"],
    "mass": ["g", "kg", "M_sun", "M_earth"],
    "time": ["s", "yr"],
    "velocity": ["cm/s", "km/s"],
    "density": ["g/cm**3", "kg/m**3", "M_sun/pc**3"],
    "energy": ["erg", "J"],
    "dimensionless": ["dimensionless", "percent", "ppm", "rad", "deg", "cm/m"],
    "temperature": ["K"],
    # electromagnetic units: Gaussian-cgs and SI ones are different dimensions and must never be inter-converted
    "magnetic_gaussian": ["G", "mG"],
    "magnetic_SI": ["T"],
    "electric_SI": ["V/m"],
    "capacitance": ["F"],
    "resistance": ["ohm"],
}
FAMILIES_QUICK = {
    "length": ["cm", "m", "au"],
    "mass": ["g", "M_sun"],
    "time": ["s", "yr"],
    "velocity": ["cm/s", "km/s"],
    "density": ["g/cm**3", "M_sun/pc**3"],
    "energy": ["erg", "J"],
    "dimensionless": ["dimensionless", "percent", "deg", "cm/m"],
    "temperature": ["K"],
    # electromagnetic units: Gaussian-cgs and SI ones are different dimensions and must never be inter-converted
    "magnetic_gaussian": ["G", "mG"],
    "magnetic_SI": ["T"],
    "electric_SI": ["V/m"],
    "capacitance": ["F"],
    "resistance": ["ohm"],
}


def uinfo(unit):
    """osyris/pint unit or unit string -> (scale, dims, tol) through M2."""
    import osyris

    if isinstance(unit, str):
        own = M2.info_of_string(unit)  # what the string says, read without the library's parser
        if own is not None:
            return own
        unit = osyris.units(unit)
    return M2.unit_info(unit)


def label_mismatch(unit, string):
    """None when the library's unit object `unit` is what the unit string says (as read by M2's own parser), else a description.
    Strings outside M2's grammar cannot be judged (None)."""
    own = M2.info_of_string(string)
    if own is None:
        return None
    try:
        got = M2.unit_info(unit)
    except M2.UnknownUnit as e:
        return {"string": string, "unit": str(unit), "unknown": str(e)}
    if tuple(got[1]) != tuple(own[1]) or abs(got[0] - own[0]) > (1e-12 + got[2] + own[2]) * abs(own[0]):
        return {"string": string, "unit": str(unit), "scale_of_string": own[0], "scale_of_unit": got[0]}
    return None


def phys(arr):
    """Array -> (physical CGS values float64, dims, tol)"""
    s, d, t = M2.unit_info(arr.unit)
    return np.asarray(arr.values, dtype=np.float64) * s, d, t


def eps_for(*dtypes):
    e = 1e-12
    for dt in dtypes:
        if np.dtype(dt) == np.float32:
            e = max(e, 2e-6)
    return e


def close(got, want, rtol):
    got, want = np.asarray(got, dtype=np.float64), np.asarray(want, dtype=np.float64)
    if got.shape != want.shape:
        try:
            got, want = np.broadcast_arrays(got, want)
        except ValueError:
            return False
    with np.errstate(all="ignore"):
        ok = np.isclose(got, want, rtol=rtol, atol=0.0, equal_nan=True)
        # tolerate absolute noise relative to the magnitude of the data when the exact result is 0
        scale = np.max(np.abs(want)) if want.size else 0.0
        ok |= np.abs(got - want) <= rtol * scale
    return bool(np.all(ok))


def snapshot(x):
    """bit-level snapshot of an Array / Vector / ndarray / Quantity / number for 'unchanged' checks"""
    import osyris
    from pint import Quantity

    if isinstance(x, osyris.Vector):
        return ("V", x.name, tuple(snapshot(c) for c in x._xyz.values()))
    if isinstance(x, osyris.Array):
        a = np.asarray(x._array)
        return ("A", x.name, str(x.unit), str(a.dtype), a.shape, a.tobytes())
    if isinstance(x, Quantity):
        a = np.asarray(x.magnitude)
        return ("Q", str(x.units), str(a.dtype), a.shape, a.tobytes())
    if isinstance(x, np.ndarray):
        return ("N", str(x.dtype), x.shape, x.tobytes())
    return ("S", repr(x))


SHAPES = {"0d": (), "1": (1,), "3": (3,), "2x3": (2, 3), "2x1": (2, 1), "1x3": (1, 3)}
SHAPE_PAIRS = [("3", "3"), ("0d", "0d"), ("1", "1"), ("2x3", "2x3"), ("3", "2x3"), ("2x3", "3"), ("2x1", "1x3"), ("0d", "3"), ("3", "0d")]


def values_for(shape, dtype, vset, which):
    """Deterministic small values. vset 0: small exact integers; vset 1: values incl. 0 and negatives
    (integers, so that every dtype represents them exactly). `which` decorrelates the two operands."""
    n = int(np.prod(shape)) if shape else 1
    if vset == 0:
        base = np.arange(1, n + 1) * (2 if which else 1) + (1 if which else 0)
    else:
        base = (np.arange(n) * (3 if which else 2) - (2 if which else 1))
        if which:
            base = np.where(base == 0, 4, base)
    arr = base.reshape(shape).astype(dtype)
    return arr

"""C06 — Datagroup members stay row-aligned under insertion, slicing and sorting.

E2 + M4: BFS over histories of insert/replace/update/delete/pop/index/sort operations on a
live Datagroup. The reference model keeps, per member and component, a plain numpy array of
row tags; an index or permutation is applied to each of the model's arrays independently with
numpy, so "one and the same row selection for every member" is exactly agreement with it.
Invariant on every state: every member's shape equals the group's shape.
"""
import numpy as np

from ..engines import history
from ..runner import Acc

LEVEL = "model_checking"
MOD = "mc.props.C06"

N0 = 4  # rows of the first member of an empty group
KID = {"Afit": 1, "Aifit": 2, "V3fit": 3, "V2fit": 4, "A_plus1": 5, "A_2d": 6, "S0": 7}
# (two of the members are pure numbers with a scale - an angle in degrees, a fraction in percent: selecting rows keeps those units too)
UNIT = {"Afit": "m", "Aifit": "s", "V3fit": "cm", "V2fit": "deg", "A_plus1": "m", "A_2d": "percent", "S0": "kg"}
UNIT_STR = {"m": "meter", "s": "second", "cm": "centimeter", "km": "kilometer", "kg": "kilogram", "deg": "degree", "percent": "percent"}


def row_tag(n):
    # scrambled (non-monotonic) so that sorting is not the identity; distinct for n <= 7
    return (np.arange(n) * 3 + 1) % 7


def model_arrays(kind, shape, ver):
    """List of component arrays (1 for Array, 2/3 for Vector) for a value of `kind` fitting `shape`."""
    base = 100 * KID[kind] + 10 * ver
    if kind == "S0":
        return [np.float64(base)]
    n = shape[0] if shape else N0
    rest = tuple(shape[1:]) if shape else ()
    if kind == "A_plus1":
        n = n + 1
    tags = row_tag(n).reshape((n,) + (1,) * len(rest)) * np.ones((n,) + rest)
    if kind == "A_2d":
        tags = np.stack([tags, tags + 0.5], axis=-1)
    if kind == "Aifit":
        return [(tags + base).astype(np.int64)]
    ncomp = {"V3fit": 3, "V2fit": 2}.get(kind, 1)
    return [tags + base + 1000.0 * c for c in range(ncomp)]


def build_value(kind, arrays):
    import osyris

    if kind in ("V3fit", "V2fit"):
        return osyris.Vector(*[a.copy() for a in arrays], unit=UNIT[kind])
    return osyris.Array(np.array(arrays[0]).copy(), unit=UNIT[kind])


def describe(v):
    import osyris

    if isinstance(v, osyris.Vector):
        return ["V", v.name, [describe(c) for c in v._xyz.values()]]
    return ["A", v.name, str(v.unit), str(v.dtype), list(v.shape), np.asarray(v._array).tolist()]


def strip_names(desc):
    """the same description without names (one object stored under two keys can only carry one name)"""
    def s(d):
        if d[0] == "V":
            return ["V", [s(c) for c in d[2]]]
        return ["A"] + d[2:]

    return [[k, s(d)] for k, d in desc]


def describe_model(key, m):
    def one(name, arr, unit):
        arr = np.asarray(arr)
        return ["A", name, UNIT_STR[unit], str(arr.dtype), list(arr.shape), arr.tolist()]

    if m["kind"] in ("V3fit", "V2fit"):
        return ["V", key, [one(key + "_" + "xyz"[i], a, m["unit"]) for i, a in enumerate(m["arrays"])]]
    return one(key, m["arrays"][0], m["unit"])


class Box:
    def __init__(self, obj):
        self.obj = obj
        self.aliased = False  # some object is stored under two keys (names are then not comparable)
        self.other = None  # (another Datagroup sharing member objects with obj, its expected description)


def index_objects(name, n):
    """(impl index, model index) for an index op on a group with first-dim length n."""
    import osyris

    if name == "int0":
        return 0, 0
    if name == "int-1":
        return -1, -1
    if name == "int_oob":
        return 5, 5
    if name == "slice1:":
        return slice(1, None), slice(1, None)
    if name == "slice::2":
        return slice(None, None, 2), slice(None, None, 2)
    if name == "slice::-1":
        return slice(None, None, -1), slice(None, None, -1)
    if name == "slice1:3":
        return slice(1, 3), slice(1, 3)
    mask = np.array([(i % 3) != 1 for i in range(n)], dtype=bool)
    rep = np.array([0, 0, max(n - 1, 0)], dtype=np.int64)
    perm = np.roll(np.arange(n, dtype=np.int64), 1)
    if name == "mask_nd":
        return mask.copy(), mask
    if name == "mask_Array":
        return osyris.Array(mask.copy()), mask
    if name == "ints_nd":
        return rep.copy(), rep
    if name == "ints_Array":
        return osyris.Array(rep.copy()), rep
    if name == "ints_i4_Array":
        return osyris.Array(rep.astype(np.int32)), rep
    neg = np.array([-1, 0, -max(n, 1), min(2, max(n - 1, 0))], dtype=np.int64)
    if name == "ints_neg_nd":
        return neg.copy(), neg
    if name == "ints_neg_Array":
        return osyris.Array(neg.copy()), neg
    if name == "perm_from_end_nd":
        return (-1 - np.arange(n, dtype=np.int64)), (-1 - np.arange(n, dtype=np.int64))
    if name == "perm_nd":
        return perm.copy(), perm
    if name == "perm_list":
        return [int(i) for i in perm], perm
    if name == "perm_Array":
        return osyris.Array(perm.copy()), perm
    if name == "perm_argsort_of_Array_with_unit":
        # what np.argsort returns for a member of another group on the same rows: an integer Array that carries the unit of the
        # data that was sorted; as an index it is a list of row numbers like any other
        keys = np.empty(n, dtype=np.float64)
        keys[perm] = np.arange(n, dtype=np.float64) * 1.5 + 0.25
        order = np.argsort(osyris.Array(keys, unit="g"))
        if not np.array_equal(np.asarray(getattr(order, "values", order)), perm):
            raise AssertionError("harness: argsort of the keys is not the permutation")
        return order, perm
    if name == "ints_Array_with_unit":
        return osyris.Array(rep.copy(), unit="cm"), rep
    raise KeyError(name)


INDEX_OPS = [
    "int0", "int-1", "int_oob", "slice1:", "slice::2", "slice::-1", "slice1:3",
    "mask_nd", "mask_Array", "ints_nd", "ints_Array", "ints_i4_Array", "ints_Array_with_unit", "perm_argsort_of_Array_with_unit", "perm_nd", "ints_neg_nd", "ints_neg_Array", "perm_from_end_nd",
]


class Spec:
    def __init__(self, params):
        ops = [["ctor", [["a", "Afit"], ["b", "V3fit"], ["c", "Aifit"]]],
               # the same group, its Vector built from the columns of one 2-d array (Vector(*block.T)): components are strided views of one buffer
               ["ctor", [["a", "Afit"], ["b", "V3fit"], ["c", "Aifit"]], "vector-from-columns-of-one-array"]]
        for k, kinds in params["sets"]:
            for kind in kinds:
                ops.append(["set", k, kind])
        for name in params["index"]:
            ops.append(["index", name])
        for k in params["keys"]:
            ops.append(["sortby_member", k])
        ops.append(["sortby_perm", "perm_list"])
        ops.append(["sortby_perm", "perm_nd"])
        ops.append(["sortby_perm", "perm_from_end_nd"])
        ops.append(["sortby_perm", "perm_Array"])
        ops.append(["sortby_perm", "perm_argsort_of_Array_with_unit"])
        ops.append(["del", "a"])
        ops.append(["del", "b"])
        ops.append(["pop", "c"])
        ops.append(["update", [["b", "Afit"], ["c", "A_plus1"]]])
        # non-initial start states: a group that held members and was emptied again, by each way of removing
        for how in ("pop", "del", "clear", "del-then-pop"):
            ops.append(["ctor_emptied", how])
        # another group that holds some of the same member objects (the same Array inserted twice, a shallow copy) next to a member of its own:
        # whatever is done to this group afterwards, the other group's rows stay where they are
        ops.append(["share_into_other_group", "insert"])
        ops.append(["share_into_other_group", "copy"])
        # the same object reachable twice in one group
        ops.append(["alias", "a", "c"])
        ops.append(["alias", "c", "b"])
        ops.append(["alias_component", "b", "c"])
        ops.append(["alias_component", "a", "b"])
        self.ops = ops
        self.keys = params["keys"]

    def fresh(self):
        import osyris

        return Box(osyris.Datagroup()), {}

    def canon(self, impl):
        import osyris

        g = impl.obj
        ids, same = {}, []
        for k in g._container:
            v = g._container[k]
            parts = list(v._xyz.values()) if isinstance(v, osyris.Vector) else [v]
            same.append([ids.setdefault(id(p._array if hasattr(p, "_array") else p), len(ids)) for p in [v] + parts])
        # every other instance attribute is part of the state (a cached shape, a dirty flag, ...): a finer canonical
        # form only costs time, a coarser one would merge states with different futures
        hidden = sorted((k, repr(v)) for k, v in vars(g).items() if k not in ("_container", "parent"))
        # ... and so is the memory layout of every member (views of a larger buffer, strides): equal numbers in another layout
        # are another state
        layout = []
        for k in g._container:
            v = g._container[k]
            for p in (list(v._xyz.values()) if isinstance(v, osyris.Vector) else [v]):
                a = np.asarray(p._array)
                b = a.base
                layout.append([bool(a.flags.c_contiguous), list(a.strides), None if b is None else [list(np.shape(b)), int(a.__array_interface__["data"][0] - np.asarray(b).__array_interface__["data"][0])]])
        other = None if impl.other is None else [[k, describe(v)] for k, v in impl.other[0].items()]
        return [[[k, describe(g._container[k])] for k in g._container], same, impl.aliased, hidden, layout, other]

    # -- model helpers
    @staticmethod
    def mshape(model, skip=None):
        for k, m in model.items():
            if k != skip:
                return np.asarray(m["arrays"][0]).shape
        return None

    def _expect_set(self, model, key, newshape):
        others = [np.asarray(m["arrays"][0]).shape for k, m in model.items() if k != key]
        if not others:
            if key in model and np.asarray(model[key]["arrays"][0]).shape != newshape:
                return "either"  # replacing the only member
            return "accept"
        return "accept" if all(s == newshape for s in others) else "reject"

    def _insert(self, impl, model, key, kind, problems, call):
        cur = self.mshape(model)
        ver = 1 if key not in model else model[key]["ver"] % 2 + 1
        arrays = model_arrays(kind, cur if cur is not None else (N0,), ver)
        newshape = np.asarray(arrays[0]).shape
        exp = self._expect_set(model, key, newshape)
        before = self.canon(impl)[0]
        val = build_value(kind, arrays)
        try:
            call(key, val)
            got = "accept"
        except ValueError:
            got = "reject"
        if exp != "either" and got != exp:
            what = "scalar-group" if (cur == () or newshape == ()) else "nonscalar"
            problems.append((f"C06:insert-{exp}-expected-got-{got}:{what}", {"key": key, "kind": kind, "group_shape": cur}))
        if got == "accept":
            m = {"kind": kind, "arrays": arrays, "unit": UNIT[kind], "ver": ver}
            if key in model:
                model[key] = m
            else:
                model[key] = m
        elif self.canon(impl)[0] != before:
            problems.append(("C06:rejected-insert-changed-group", {"key": key, "kind": kind}))
        return got

    def step(self, impl, model, op):
        import osyris

        g = impl.obj
        problems = []
        ret = None
        name = op[0]
        if name == "ctor":
            model.clear()
            vals = {}
            for k, kind in op[1]:
                arrays = model_arrays(kind, (N0,), 1)
                if len(op) > 2 and kind in ("V3fit", "V2fit"):
                    block = np.ascontiguousarray(np.stack(arrays, axis=1))
                    vals[k] = osyris.Vector(*block.T, unit=UNIT[kind])
                else:
                    vals[k] = build_value(kind, arrays)
                model[k] = {"kind": kind, "arrays": arrays, "unit": UNIT[kind], "ver": 1}
            impl.obj = g = osyris.Datagroup(vals)
            impl.aliased = False
            ret = "ctor"
        elif name == "ctor_emptied":
            model.clear()
            vals = {k: build_value(kind, model_arrays(kind, (N0,), 1)) for k, kind in (("a", "Afit"), ("c", "Aifit"))}
            impl.obj = g = osyris.Datagroup(vals)
            impl.aliased = False
            _ = g.shape
            how = op[1]
            if how == "clear" and hasattr(g, "clear"):
                g.clear()
            elif how == "pop":
                g.pop("a")
                g.pop("c")
            elif how == "del-then-pop":
                del g["a"]
                g.pop("c")
            else:
                del g["a"]
                del g["c"]
            ret = "emptied"
        elif name == "set":
            ret = self._insert(impl, model, op[1], op[2], problems, lambda k, v: g.__setitem__(k, v))
        elif name == "update":
            rets = []
            # dict.update semantics: sequence of insertions, stops at first rejection
            for k, kind in op[1]:
                r = self._insert(impl, model, k, kind, problems, lambda kk, v: g.update({kk: v}))
                rets.append(r)
                if r == "reject":
                    break
            ret = rets
        elif name == "share_into_other_group":
            if not model or self.mshape(model) in (None, ()):
                ret = "disabled"
            else:
                n = self.mshape(model)[0]
                if op[1] == "copy":
                    other = g.copy()
                else:
                    other = osyris.Datagroup()
                    for k in g.keys():
                        other[k] = g[k]
                    # inserting renames the shared objects to the same keys: nothing changes for g
                shp = tuple(self.mshape(model))
                other["own"] = osyris.Array((np.arange(int(np.prod(shp)), dtype=np.float64) + 0.5).reshape(shp), unit="s")
                impl.other = (other, [[k, describe(v)] for k, v in other.items()])
                ret = "shared"
        elif name in ("alias", "alias_component"):
            src, dst = op[1], op[2]
            if src not in model or src == dst:
                ret = "disabled"
            else:
                m = model[src]
                is_vec = m["kind"] in ("V3fit", "V2fit")
                if name == "alias_component" and not is_vec:
                    ret = "disabled"
                else:
                    obj = g[src].x if name == "alias_component" else g[src]
                    arrays = [m["arrays"][0]] if name == "alias_component" else list(m["arrays"])
                    kind = "Afit" if name == "alias_component" else m["kind"]
                    newshape = np.asarray(arrays[0]).shape
                    exp = self._expect_set(model, dst, newshape)
                    try:
                        g[dst] = obj
                        got = "accept"
                    except ValueError:
                        got = "reject"
                    if exp != "either" and got != exp:
                        problems.append((f"C06:alias-insert-{exp}-expected-got-{got}", {"op": op}))
                    if got == "accept":
                        model[dst] = {"kind": kind, "arrays": [np.array(a) for a in arrays], "unit": m["unit"], "ver": m["ver"]}
                        impl.aliased = True
                    ret = got
        elif name in ("del", "pop"):
            k = op[1]
            try:
                if name == "del":
                    del g[k]
                else:
                    g.pop(k)
                raised = False
            except KeyError:
                raised = True
            if raised != (k not in model):
                problems.append((f"C06:{name}-keyerror-mismatch", {"key": k}))
            model.pop(k, None)
            ret = "KeyError" if raised else "removed"
        elif name == "index":
            cur = self.mshape(model)
            n = cur[0] if cur else 0
            iidx, midx = index_objects(op[1], n)
            # model: the same index applied to each component array independently
            mres, mexc = {}, None
            try:
                for k, m in model.items():
                    arrs = [np.asarray(a)[midx] for a in m["arrays"]]
                    mres[k] = dict(m, arrays=arrs)
            except Exception as e:
                mexc = type(e).__name__
            try:
                res = g[iidx]
                iexc = None
            except Exception as e:
                res, iexc = None, type(e).__name__
            if not model:
                # indexing an empty group: nothing to align; accept either outcome, stay put
                ret = ["empty", iexc]
                if res is not None and len(res) != 0:
                    problems.append(("C06:index-empty-group-nonempty-result", {}))
            elif (mexc is None) != (iexc is None):
                problems.append((f"C06:index-exception-mismatch:{op[1]}", {"model": mexc, "impl": iexc, "n": n}))
                ret = ["exc", iexc]
                if iexc is None:
                    impl.obj = res
                    model.clear()
                    model.update(_model_from_impl(res))
            elif mexc is not None:
                ret = ["exc", "both"]
            else:
                if res is g:
                    problems.append(("C06:index-returned-self", {}))
                impl.obj = res
                impl.aliased = False
                model.clear()
                model.update(mres)
                ret = "indexed"
        elif name == "sortby_member":
            k = op[1]
            if k not in model or model[k]["kind"] in ("V3fit", "V2fit") or np.asarray(model[k]["arrays"][0]).ndim != 1:
                ret = "disabled"
            else:
                keyarr = np.asarray(model[k]["arrays"][0])
                order = np.argsort(keyarr, kind="stable")
                if len(set(keyarr.tolist())) != len(keyarr):
                    ret = "disabled-ties"
                else:
                    try:
                        g.sortby(k)
                    except Exception as e:
                        problems.append(("C06:sortby-member-raised", {"key": k, "exc": type(e).__name__}))
                    for kk, m in model.items():
                        m["arrays"] = [np.asarray(a)[order] for a in m["arrays"]]
                    ret = "sorted"
        elif name == "sortby_perm":
            cur = self.mshape(model)
            if not cur:
                ret = "disabled"
            else:
                iidx, midx = index_objects(op[1], cur[0])
                try:
                    g.sortby(iidx)
                except Exception as e:
                    problems.append(("C06:sortby-perm-raised", {"exc": type(e).__name__}))
                for kk, m in model.items():
                    m["arrays"] = [np.asarray(a)[midx] for a in m["arrays"]]
                ret = "sorted"
        else:
            raise ValueError(op)

        g = impl.obj
        got = [[k, describe(v)] for k, v in g.items()]
        want = [[k, describe_model(k, m)] for k, m in model.items()]
        if impl.aliased:
            got_c, want_c = strip_names(got), strip_names(want)
        else:
            got_c, want_c = got, want
        if got_c != want_c:
            sig = "C06:rows-misaligned-or-values-wrong"
            if [x[0] for x in got] != [x[0] for x in want]:
                sig = "C06:keys-differ"
            elif _strip_values(got) != _strip_values(want) and not impl.aliased:
                sig = "C06:unit-name-dtype-or-shape-not-preserved"
            problems.append((sig + ":" + name, {"got": got, "want": want, "after": op}))
        # the other group sharing member objects: all of its rows as they were when it was made
        if impl.other is not None and name not in ("share_into_other_group", "ctor", "ctor_emptied"):
            og, odesc = impl.other
            now = [[k, describe(v)] for k, v in og.items()]
            if strip_names(now) != strip_names(odesc):
                problems.append((f"C06:group-sharing-member-objects-changed-by:{name}", {"after": op, "other_now": now, "other_before": odesc}))
                impl.other = None
        if name in ("ctor", "ctor_emptied"):
            impl.other = None
        # invariant: every member has the group's shape
        shapes = {k: tuple(v.shape) for k, v in g.items()}
        if len(set(shapes.values())) > 1 or any(s != tuple(g.shape) for s in shapes.values()):
            problems.append(("C06:invariant-members-differ-in-shape", {"shapes": {k: list(s) for k, s in shapes.items()}, "after": op}))
        return [ret, got], problems


def _strip_values(desc):
    def s(d):
        if d[0] == "V":
            return ["V", d[1], [s(c) for c in d[2]]]
        return d[:5]

    return [[k, s(d)] for k, d in desc]


def _model_from_impl(g):
    """Resynchronise after an outcome the model did not predict (already reported)."""
    import osyris

    out = {}
    for k, v in g.items():
        if isinstance(v, osyris.Vector):
            out[k] = {"kind": "V3fit" if v.nvec == 3 else "V2fit", "arrays": [c._array for c in v._xyz.values()], "unit": "cm" if v.nvec == 3 else "km", "ver": 1}
        else:
            unit = {v2: k2 for k2, v2 in UNIT_STR.items()}.get(str(v.unit), "m")
            out[k] = {"kind": "Afit", "arrays": [v._array], "unit": unit, "ver": 1}
    return out


def make_spec(name, params):
    return Spec(params)


def params_for(thorough):
    return {
        "keys": ["a", "b", "c"],
        "sets": [
            ["a", ["Afit", "V3fit", "A_plus1", "S0"]],
            ["b", ["Aifit", "V2fit", "A_2d"]],
            ["c", ["V3fit", "Afit"] + (["S0", "A_plus1"] if thorough else [])],
        ],
        "index": INDEX_OPS,
    }


def run(ctx):
    p = params_for(ctx.thorough)
    depth = 5 if ctx.thorough else 3
    und = 3 if ctx.thorough else 2
    cov, acc = history.explore(ctx.pool, MOD, "datagroup", p, depth, und)
    cov["exhaustive"] = True
    cov["rule"] = (
        "BFS over insert/replace/update/del/pop/index(13 index kinds)/sortby(member|permutation) on a live Datagroup; "
        "row tags per member and component; model applies each index to every component array independently"
    )
    cov["outcomes"] = dict(acc.outcomes)
    return {
        "level": LEVEL,
        "coverage": cov,
        "violations": acc.violation_list(),
        "errors": acc.errors,
        "assumptions": [
            "replacing the only member by a value of another shape may be accepted or rejected",
            "sorting by a member means an Array member with distinct values; Vectors have no order",
            "indexing an empty group is not constrained",
        ],
    }


def replay_sigs(case):
    return [s for s, _ in history.replay_case(case)]

"""C14 — particle and sink tables are loaded completely, typed and scaled correctly.

E1 + M1: product/deviation enumeration over ncpu, particle counts per cpu (incl. zero), descriptors
mixing d/i/b columns in every order (all type strings up to length 3, deviations beyond), with and
without full position/velocity component sets, header record sizes, ndim; sort-on-load with ties;
sink CSV files with 0..3 rows, both unit-line dialects, extra columns, empty and missing files.
"""
import itertools

import numpy as np

from ..models import ramses as M1
from ..models import units as M2
from ..runner import Acc, my_share
from . import _load
from . import C01

LEVEL = "exploration"
MOD = "mc.props.C14"

UNITS = [[1.0, 1.0, 1.0, 1.0], [2.0, 3.0, 5.0, 2.0]]


def type_strings(thorough):
    out = [""]
    maxlen = 4 if thorough else 3
    for n in range(1, maxlen + 1):
        out += ["".join(t) for t in itertools.product("dib", repeat=n)]
    out += ["ddiibb", "bidbid", "bbbbdd", "ibdbid"]
    return out


def descriptor(ndim, pos, vel, types, scaled_names=False):
    d = []
    comps = "xyz"[:ndim]
    if pos == "full":
        d += [(f"position_{c}", "d") for c in comps]
    elif pos == "full-rev":
        d += [(f"position_{c}", "d") for c in comps[::-1]]
    elif pos == "partial" and ndim > 1:
        d += [(f"position_{c}", "d") for c in comps[:-1]]
    if vel == "full":
        d += [(f"velocity_{c}", "d") for c in comps]
    elif vel == "full-rot":
        d += [(f"velocity_{c}", "d") for c in comps[1:] + comps[:1]]
    names = {"d": ["mass", "birth_time", "metallicity", "pot", "aux1", "aux2"],
             "i": ["identity", "levelp", "ipar", "jpar", "kpar", "lpar"],
             "b": ["family", "tag", "flag_a", "flag_b", "flag_c", "flag_d"]}
    if scaled_names:
        # integer and byte records under names whose unit has a scale (a time step counter named 'time', a size class named 'dx'):
        # whatever the on-disk type, the stored number is in the unit of its name
        names = dict(names, i=["time"] + names["i"], b=["dx"] + names["b"])
    used = {"d": 0, "i": 0, "b": 0}
    for t in types:
        d.append((names[t][used[t]], t))
        used[t] += 1
    return d


def part_cases(thorough):
    counts_by_ncpu = {1: [[0], [1], [3]], 2: [list(c) for c in itertools.product([0, 1, 3], repeat=2)],
                      3: [list(c) for c in itertools.product([0, 1, 3], repeat=3)]}
    for ndim in (1, 2, 3):
        for ncpu in (1, 2, 3):
            for counts in counts_by_ncpu[ncpu]:
                for types in type_strings(thorough):
                    variants = [("full", "full", 4, 4, 0)]
                    if len(types) <= 3 and ndim > 1:
                        # components listed out of x, y, z order
                        variants += [("full-rev", "full-rot", 4, 4, 0), ("full", "full-rot", 4, 4, 1)]
                    if len(types) <= 2 or thorough:
                        variants += [("none", "none", 4, 4, 0), ("partial", "full", 4, 4, 0), ("full", "none", 1, 8, 1),
                                     ("full", "full", 1, 4, 1), ("full", "full", 4, 8, 0)]
                    for pos, vel, ls, nsb, ui in variants:
                        desc = descriptor(ndim, pos, vel, types)
                        if len(desc) < 2:
                            continue
                        if not thorough and ncpu == 3 and len(types) > 1:
                            continue
                        yield {"ndim": ndim, "ncpu": ncpu, "counts": counts, "types": types, "pos": pos, "vel": vel,
                               "localseed": ls, "nstar_bytes": nsb, "units": ui}
                        if (pos, vel, ls, nsb) == ("full", "full", 4, 4) and ("i" in types or "b" in types) and len(types) <= 3:
                            yield {"ndim": ndim, "ncpu": ncpu, "counts": counts, "types": types, "pos": pos, "vel": vel,
                                   "localseed": ls, "nstar_bytes": nsb, "units": 1, "scaled_names": True}
                        # the table restricted to some of its variables: still complete in rows
                        if len(desc) >= 3 and len(types) in (1, 2) and (pos, vel, ls, nsb) == ("full", "full", 4, 4) and sum(counts) > 0:
                            for sel in ("all-but-first", "first-off", "last-two"):
                                yield {"ndim": ndim, "ncpu": ncpu, "counts": counts, "types": types, "pos": pos, "vel": vel,
                                       "localseed": ls, "nstar_bytes": nsb, "units": ui, "select": sel}


def part_expected(out):
    """stored column name -> (values in CGS concatenated in cpu order, dims)"""
    eu = M2.ramses_expected_units(out.unit_d, out.unit_l, out.unit_t)
    P = out.part
    cols = {}
    for j, (name, typ) in enumerate(P["desc"]):
        vals = []
        for k in range(out.ncpu):
            vals += list(P["data"][k][name])
        f, d = eu[M2.ramses_kind(name)]
        cols[name] = (np.asarray(vals, dtype=float) * f, d)
    return cols


def run_part(c, sortby=None):
    ndim = c["ndim"]
    tree = M1.Tree(ndim, 1, [])
    ud, ul, ut, box = UNITS[c["units"]]
    out = M1.Output(tree, ncpu=c["ncpu"], unit_d=ud, unit_l=ul, unit_t=ut, boxlen=box, hydro="two")
    desc = descriptor(ndim, c["pos"], c["vel"], c["types"], c.get("scaled_names", False))
    out.part = M1.make_part(desc, c["counts"], localseed=c["localseed"], nstar_bytes=c["nstar_bytes"])
    if sortby:
        # introduce ties in the sort key
        for k in range(out.ncpu):
            col = out.part["data"][k][sortby]
            out.part["data"][k][sortby] = [(v % 2) + 5 for v in col] if isinstance(col[0] if col else 0, int) else col
    with _load.Scratch() as d:
        out.write(d)
        try:
            kw = {"sortby": {"part": sortby}} if sortby else {}
            names_all = [n for n, _ in desc]
            if c.get("select") == "all-but-first":
                kw["select"] = {"part": names_all[1:], "mesh": False}
            elif c.get("select") == "first-off":
                kw["select"] = {"part": {names_all[0]: False}}
            elif c.get("select") == "last-two":
                kw["select"] = {"part": names_all[-2:]}
            ds, text = _load.load(d, out.nout, **kw)
        except Exception as e:
            import traceback

            return [("part-load-raised:" + type(e).__name__, {"trace": traceback.format_exc()[-500:]})]
    problems = []
    total = sum(c["counts"])
    if int(ds.meta.get("nparticles", -1)) != total:
        problems.append(("meta-nparticles", {"got": int(ds.meta.get("nparticles", -1)), "expected": total}))
    if "part" not in ds:
        return problems + [("no-part-group", {"groups": list(ds.keys())})]
    exp = part_expected(out)
    stored = [n for n, _ in desc]
    if c.get("select") in ("all-but-first", "first-off"):
        stored = stored[1:]
    elif c.get("select") == "last-two":
        stored = stored[-2:]
    vecs, scal = _load.expected_vector_groups(stored, ndim)
    ecols = {}
    for raw, cl in vecs:
        for comp, cn in zip("xyz", cl):
            ecols[f"{raw}.{comp}"] = exp[cn]
    for s in scal:
        ecols[s] = exp[s]
    try:
        got = _load.flatten_group(ds["part"])
    except M2.UnknownUnit as e:
        return problems + [("part-unknown-unit", {"unit": str(e)})]
    if total == 0 and len(got) == 0:
        return problems
    miss, extra = sorted(set(ecols) - set(got)), sorted(set(got) - set(ecols))
    if miss:
        problems.append(("part-column-missing", {"missing": miss, "got": sorted(got)}))
    if extra:
        problems.append(("part-column-unexpected", {"extra": extra}))
    common = sorted(set(ecols) & set(got))
    for k in common:
        if len(got[k][0]) != total:
            problems.append(("part-row-count", {"column": k, "got": len(got[k][0]), "expected": total}))
            return problems
        if tuple(got[k][1]) != tuple(ecols[k][1]):
            problems.append(("part-unit-dimension", {"column": k, "unit": got[k][3]}))
    if not sortby:
        for k in common:
            if not np.allclose(got[k][0], ecols[k][0], rtol=1e-12, atol=0):
                typ = dict(desc).get(k, "d")
                problems.append((f"part-values:type-{typ}", {"column": k, "got": got[k][0][:6].tolist(), "expected": ecols[k][0][:6].tolist()}))
    else:
        key = got.get(sortby)
        if key is not None and np.any(np.diff(key[0]) < 0):
            problems.append(("part-sort-key-not-ordered", {"key": key[0].tolist()}))
        # rows must be a permutation of the unsorted rows, applied to all columns alike
        if common and total:
            G = np.stack([got[k][0] for k in common], axis=1)
            E = np.stack([ecols[k][0] for k in common], axis=1)
            gs = G[np.lexsort(G.T[::-1])]
            es = E[np.lexsort(E.T[::-1])]
            if not np.allclose(gs, es, rtol=1e-12, atol=0):
                problems.append(("part-sort-misaligned-rows", {"columns": common}))
    return problems


# ---------------------------------------------------------------------- sinks


def sink_cases(thorough):
    for ndim in (1, 2, 3):
        for state in ["missing", "empty", 1, 2, 3]:
            for legacy in (False, True):
                for extra in ([], ["lx"], ["lx", "ly"]):
                    for ui in (0, 1):
                        if state in ("missing", "empty") and (legacy or extra or ui):
                            continue
                        yield {"ndim": ndim, "state": state, "legacy": legacy, "extra": extra, "units": ui}
                        if not legacy and state not in ("missing", "empty") and extra == ["lx"]:
                            # unit-line entries that are general expressions in m, l, t
                            for exprs in (["m/t", "m**0.5 l**-0.5 t**-1", "(l/t)**2"], ["m*l**2", "l**3/t", "m l**-1 t**-2"], ["1/t", "m l**2.0 t**-1", "m t**-1 l**-2"],
                                          # ... with a numeric factor in front (a blank after a number is a product like any other)
                                          ["1 t**-1", "0.5 m", "0.5 m l**2 t**-2"], ["2 l", "1 m l**-3", "(1) t**-1"]):
                                yield {"ndim": ndim, "state": state, "legacy": legacy, "extra": ["acc", "bnorm", "cs2"], "units": ui, "exprs": exprs}
                        if ndim > 1 and state not in ("missing", "empty"):
                            for order in ("rev", "rot"):
                                yield {"ndim": ndim, "state": state, "legacy": legacy, "extra": extra, "units": ui, "order": order}


def sink_unit_factor(expr, legacy, out):
    """my own evaluation of the unit line: -> (factor to CGS, dims)"""
    eu = M2.ramses_expected_units(out.unit_d, out.unit_l, out.unit_t)
    if legacy:
        u = expr.strip("[]")
        table = {"1": (1.0, M2.dims_of()), "g": (1.0, M2.dims_of(g=1)), "cm": (1.0, M2.dims_of(cm=1)),
                 "cm/s": (1.0, M2.dims_of(cm=1, s=-1)), "s": (1.0, M2.dims_of(s=1))}
        return table[u]
    if expr == "1":
        return 1.0, M2.dims_of()
    base = {"m": eu["mass"], "l": eu["length"], "t": eu["time"]}
    if any(ch in expr for ch in "/().") or "*" in expr.replace("**", "") or any(tok[:1].isdigit() for tok in expr.split()):
        # a general expression in m, l, t (a blank is a product): evaluated with this model's own unit arithmetic
        class U:
            def __init__(self, f, d):
                self.f, self.d = f, tuple(d)

            def __mul__(self, o):
                o = o if isinstance(o, U) else U(float(o), M2.dims_of())
                return U(self.f * o.f, [a + b for a, b in zip(self.d, o.d)])

            __rmul__ = __mul__

            def __truediv__(self, o):
                o = o if isinstance(o, U) else U(float(o), M2.dims_of())
                return U(self.f / o.f, [a - b for a, b in zip(self.d, o.d)])

            def __rtruediv__(self, o):
                return U(float(o), M2.dims_of()) / self

            def __pow__(self, k):
                from fractions import Fraction

                q = Fraction(k).limit_denominator(12)
                return U(self.f ** float(k), [a * q for a in self.d])

        r = eval(" ".join(expr.split()).replace(" ", "*"), {"__builtins__": {}}, {k: U(*v) for k, v in base.items()})
        return r.f, r.d
    f, d = 1.0, M2.dims_of()
    for tok in expr.split(" "):
        sym, _, p = tok.partition("**")
        p = int(p) if p else 1
        bf, bd = base[sym]
        f *= bf**p
        d = tuple(a + b * p for a, b in zip(d, bd))
    return f, d


def run_sink(c):
    ndim = c["ndim"]
    tree = M1.Tree(ndim, 1, [])
    ud, ul, ut, box = UNITS[c["units"]]
    out = M1.Output(tree, ncpu=1, unit_d=ud, unit_l=ul, unit_t=ut, boxlen=box, hydro="two")
    if c["state"] == "missing":
        out.sink = None
    elif c["state"] == "empty":
        out.sink = "empty"
    else:
        out.sink = M1.make_sink(ndim, c["state"], legacy=c["legacy"], extra_cols=c["extra"], order=c.get("order", "xyz"), extra_units=c.get("exprs"))
    with _load.Scratch() as d:
        out.write(d)
        try:
            ds, text = _load.load(d, out.nout)
        except Exception as e:
            import traceback

            return [("sink-load-raised:" + type(e).__name__, {"trace": traceback.format_exc()[-500:]})]
    problems = []
    if c["state"] == "missing":
        if "sink" in ds:
            problems.append(("sink-group-for-missing-file", {}))
        return problems
    if "sink" not in ds:
        return [("sink-group-missing", {"state": c["state"]})]
    if c["state"] == "empty":
        if len(ds["sink"]) != 0:
            problems.append(("sink-empty-file-nonempty-group", {}))
        return problems
    S = out.sink
    nrows = len(S["rows"])
    exp = {}
    for j, (k, u) in enumerate(zip(S["keys"], S["units"])):
        f, dms = sink_unit_factor(u, c["legacy"], out)
        exp[k] = (np.array([r[j] for r in S["rows"]], dtype=float) * f, dms)
    vecs, scal = _load.expected_vector_groups(S["keys"], ndim)
    ecols = {}
    for raw, cl in vecs:
        for comp, cn in zip("xyz", cl):
            ecols[f"{raw}.{comp}"] = exp[cn]
    for s in scal:
        ecols[s] = exp[s]
    try:
        got = _load.flatten_group(ds["sink"])
    except M2.UnknownUnit as e:
        return [("sink-unknown-unit", {"unit": str(e)})]
    miss, extra = sorted(set(ecols) - set(got)), sorted(set(got) - set(ecols))
    if miss:
        problems.append(("sink-column-missing", {"missing": miss, "got": sorted(got)}))
    if extra:
        problems.append(("sink-column-unexpected", {"extra": extra}))
    for k in sorted(set(ecols) & set(got)):
        if len(got[k][0]) != nrows:
            problems.append(("sink-row-count", {"column": k, "got": len(got[k][0]), "expected": nrows}))
            continue
        if tuple(got[k][1]) != tuple(ecols[k][1]):
            problems.append(("sink-unit-dimension", {"column": k, "unit": got[k][3]}))
        elif not np.allclose(got[k][0], ecols[k][0], rtol=1e-12, atol=0):
            problems.append(("sink-values", {"column": k, "got": got[k][0].tolist(), "expected": ecols[k][0].tolist()}))
    return problems


def sort_cases():
    for ndim in (1, 2, 3):
        for ncpu in (1, 2, 3):
            for counts in ([3] * ncpu, [1, 3, 0][:ncpu], [0] * (ncpu - 1) + [3]):
                for key in ("identity", "mass"):
                    yield {"ndim": ndim, "ncpu": ncpu, "counts": list(counts), "types": "dibb", "pos": "full", "vel": "full",
                           "localseed": 4, "nstar_bytes": 4, "units": 1, "sortby": key}


def all_cases(thorough):
    for c in part_cases(thorough):
        yield ("part", c)
    for c in sort_cases():
        yield ("sort", c)
    for c in sink_cases(thorough):
        yield ("sink", c)


def run_any(kind, c):
    if kind == "part":
        return run_part(c)
    if kind == "sort":
        c2 = dict(c)
        key = c2.pop("sortby")
        return run_part(c2, sortby=key)
    return run_sink(c)


def work(payload):
    acc = Acc()
    thorough = payload["tier"] == "thorough"
    for idx, (kind, c) in my_share(all_cases(thorough), payload):
        problems = run_any(kind, c)
        nontrivial = (kind != "sink" and sum(c["counts"]) > 0) or (kind == "sink" and c["state"] not in ("missing", "empty"))
        acc.case(nontrivial=nontrivial, outcome="ok" if not problems else "violation")
        acc.count(kind)
        for sig, det in problems:
            acc.violation("C14:" + sig, idx, {"kind": kind, "case": c}, det)
        if idx % 1501 == 0:
            acc.sample({"kind": kind, "case": c})
    return acc


def env_work(payload):
    """A reduced case list (every 37th case, at least one of each kind), run inside another interpreter environment."""
    acc = Acc()
    thorough = payload["tier"] == "thorough"
    for idx, (kind, c) in enumerate(all_cases(thorough)):
        if idx % (11 if thorough else 37) != 0:
            continue
        problems = run_any(kind, c)
        acc.case(nontrivial=True, outcome="ok" if not problems else "violation")
        for sig, det in problems:
            acc.violation("C14:" + sig, idx, {"kind": kind, "case": c}, det)
    return acc


def environment_replay(payload):
    return replay_sigs(payload["case"])


def run(ctx):
    from ..runner import ENVIRONMENTS, EnvironmentRuns

    envruns = EnvironmentRuns(MOD, "env_work", ctx.base(), ("python-O", "PYTHONOPTIMIZE=2", "user-units-defaultdict"))
    acc = Acc.merged(ctx.pool.shards(MOD, "work", ctx.base(), nshards=ctx.pool.n * 4) + envruns.results())
    cov = {
        "evaluations": acc.evaluations,
        "distinct_nontrivial": acc.nontrivial,
        "rule": "particles: ndim x ncpu x every count vector over {0,1,3} x every d/i/b type string up to length 3 (4 thorough) plus mixed "
        "6-strings x position/velocity full|partial|none x localseed 1|4 ints x nstar 4|8 bytes x 2 unit systems; sort-on-load by an "
        "integer key with ties and by a float key; sinks: ndim x {missing, empty, 1,2,3 rows} x dialect x extra columns x 2 unit "
        "systems. non-trivial = at least one particle / one sink row",
        "samples": acc.samples,
        "exhaustive": True,
        "by_kind": dict(acc.counters),
        "outcomes": dict(acc.outcomes),
    }
    return {"level": LEVEL, "coverage": cov, "violations": acc.violation_list(), "errors": acc.errors,
            "assumptions": ["M1 particle/sink writer = my reading of RAMSES backup_part / sink csv output",
                            "values are compared, the in-memory dtype of integer and byte columns is not part of the statement",
                            "sorting with ties may order tied rows arbitrarily"]}


def replay_sigs(case):
    if case.get("environment"):
        from ..runner import replay_in_environment

        return replay_in_environment(MOD, case)
    return ["C14:" + s for s, _ in run_any(case["kind"], case["case"])]

"""E1 — small-scope input enumerator.

A space is a dict name -> ordered list of values (simplest / baseline first).
  product(space)        every combination
  deviations(space, k)  the baseline plus every point differing from it in <= k dimensions
Both yield dicts in a deterministic order with the simplest cases first.
"""
import itertools


def product(space):
    names = list(space)
    for combo in itertools.product(*[space[n] for n in names]):
        yield dict(zip(names, combo))


def deviations(space, k):
    names = list(space)
    base = {n: space[n][0] for n in names}
    for r in range(0, k + 1):
        for dims in itertools.combinations(names, r):
            alts = [space[n][1:] for n in dims]
            for combo in itertools.product(*alts):
                d = dict(base)
                d.update(zip(dims, combo))
                yield d


def count_deviations(space, k):
    return sum(1 for _ in deviations(space, k))

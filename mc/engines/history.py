"""E2 — explicit-state history explorer over *live* objects.

state   = the history (list of op indices) that reaches it
build   = fresh real object + fresh reference model, history replayed on both
canon   = hashable projection of everything later ops can observe
search  = BFS; every transition is executed on the implementation and on the
          reference model and compared; a successor is enqueued iff its canon is new

A second, undeduplicated pass enumerates *all* histories up to a smaller depth and
checks that (canon_before, op) -> (observation, canon_after) is a function, i.e. that
merging states by canon never merged two states with different futures.

A spec object provides:
    ops                 list of JSON-able op descriptors (simplest first)
    fresh()             -> (impl, model)
    step(impl, model, op) -> (obs, problems)   applies op to both, returns a JSON-able
                           observation of the implementation and a list of
                           (sig, detail) problems (oracle disagreements / invariant breaks)
    canon(impl)         -> JSON-able canonical form of the implementation state
"""
import hashlib
import importlib
import json

from ..runner import Acc, jsonable


def digest(x):
    return hashlib.sha256(
        json.dumps(jsonable(x), sort_keys=True, default=repr).encode()
    ).hexdigest()[:20]


def get_spec(modname, specname, params):
    mod = importlib.import_module(modname)
    return mod.make_spec(specname, params)


def run_history(spec, hist, check_last_only=True):
    """Replay hist on fresh objects. Returns (impl, model, obs_last, problems_last, canon_before_last)."""
    impl, model = spec.fresh()
    obs, problems, cb = None, [], None
    for i, oi in enumerate(hist):
        last = i == len(hist) - 1
        if last:
            cb = digest(spec.canon(impl))
        o, p = spec.step(impl, model, spec.ops[oi])
        if hasattr(spec, "rebind"):
            impl, model = spec.rebind(impl, model)
        if last or not check_last_only:
            obs, problems = o, problems + list(p)
    return impl, model, obs, problems, cb


# every history this worker process has executed so far (the library may keep state between them: module-level containers,
# class attributes, mutable defaults): a violation that does not reproduce in a pristine process is re-run after them
_LOG = []
_LOG_CAP = 20000


def replay_prior(payload):
    """Worker (fresh process): run the recorded histories in order; report the problems of the last one as an Acc."""
    acc = Acc()
    entries = payload["entries"]
    for k, (mod, specname, params, hist) in enumerate(entries):
        spec = get_spec(mod, specname, params)
        try:
            impl, model, obs, problems, cb = run_history(spec, hist)
        except Exception:
            problems = []
        if k == len(entries) - 1:
            for sig, detail in problems:
                acc.violation(sig, (len(hist), *hist), {"spec_mod": mod, "spec": specname, "params": params, "history": [spec.ops[i] for i in hist], "hist_idx": hist}, jsonable(detail))
    return acc


def expand(payload):
    """Worker: expand a chunk of histories by every op."""
    spec = get_spec(payload["mod"], payload["spec"], payload.get("params"))
    out = []
    for hist in payload["hists"]:
        for oi in range(len(spec.ops)):
            h2 = list(hist) + [oi]
            if len(_LOG) < _LOG_CAP:
                _LOG.append([payload["mod"], payload["spec"], payload.get("params"), h2])
            try:
                impl, model, obs, problems, cb = run_history(spec, h2)
                ca = digest(spec.canon(impl))
                od = digest(obs)
                err = None
            except Exception as e:  # harness-level failure, not a verdict
                import traceback

                ca, od, cb, problems = None, None, None, []
                err = traceback.format_exc()
            prior = None
            if problems:
                from .. import runner as _runner

                # other (small) tasks this worker ran before, then the histories it ran
                prior = {"tasks": [list(t) for t in _runner.TASK_HISTORY if t[1] not in ("expand", "replay_prior")][-64:], "entries": [list(e) for e in _LOG]}
            out.append((h2, cb, od, ca, [(s, jsonable(d)) for s, d in problems], err, prior))
    return out


def explore(pool, modname, specname, params, max_depth, undedup_depth, prop_label=""):
    """Returns (coverage dict, Acc). Deduplicated BFS + undeduplicated cross-check."""
    spec = get_spec(modname, specname, params)
    nops = len(spec.ops)
    acc = Acc()
    impl, _ = spec.fresh()
    c0 = digest(spec.canon(impl))

    def level(hists):
        chunks = max(1, min(pool.n * 4, len(hists)))
        per = (len(hists) + chunks - 1) // chunks
        payloads = [
            {"mod": modname, "spec": specname, "params": params, "hists": hists[i : i + per]}
            for i in range(0, len(hists), per)
        ]
        res = []
        for r in pool.map("mc.engines.history", "expand", payloads):
            res.extend(r)
        return res

    # ---- pass 1: deduplicated BFS
    seen = {c0: []}
    frontier = [[]]
    transitions = 0
    depth_done = 0
    fixpoint = False
    table = {}  # (canon_before, op) -> (obs, canon_after): consistency across passes
    conflicts = []
    outcome_classes = set()

    def record(h2, cb, od, ca, problems, err, prior=None):
        nonlocal transitions
        transitions += 1
        if err:
            acc.error(f"{specname} history {h2}: {err}")
            return
        key = (cb, h2[-1])
        val = (od, ca)
        if key in table and table[key][0] != val:
            conflicts.append((table[key][1], h2))
        else:
            table.setdefault(key, (val, h2))
        for sig, detail in problems:
            acc.violation(
                sig,
                (len(h2), *h2),
                {"spec_mod": modname, "spec": specname, "params": params, "history": [spec.ops[i] for i in h2], "hist_idx": h2},
                detail,
            )
            if prior and (len(prior["entries"]) > 1 or prior["tasks"]):
                # how to reproduce it together with what the worker had executed before (see cli.confirm)
                rec = acc.violations[sig][-1][1]
                if rec.get("case", {}).get("hist_idx") == h2 and "task_history" not in rec:
                    rec["task_history"] = prior["tasks"] + [["mc.engines.history", "replay_prior", {"entries": prior["entries"]}]]

    for depth in range(1, max_depth + 1):
        if not frontier:
            fixpoint = True
            break
        nxt = []
        for h2, cb, od, ca, problems, err, prior in level(frontier):
            record(h2, cb, od, ca, problems, err, prior)
            acc.case(nontrivial=bool(ca and ca != cb), outcome="changed" if ca != cb else "unchanged")
            # a state reached through a violating transition is terminal (model and
            # implementation no longer agree, so nothing beyond it is meaningful)
            if ca is not None and not problems and ca not in seen:
                seen[ca] = h2
                nxt.append(h2)
        frontier = nxt
        depth_done = depth
    else:
        if not frontier:
            fixpoint = True

    # ---- pass 2: all histories up to undedup_depth (no merging)
    all_hist = 0
    front = [[]]
    for depth in range(1, undedup_depth + 1):
        nxt = []
        for h2, cb, od, ca, problems, err, prior in level(front):
            record(h2, cb, od, ca, problems, err, prior)
            all_hist += 1
            if ca is not None and not problems:
                nxt.append(h2)
                if ca not in seen and depth <= depth_done:
                    conflicts.append(("state missed by dedup pass", h2))
        front = nxt

    if conflicts and not acc.violations:
        # (with violations reported, differing futures of equal canonical states are explained by them: the
        #  implementation keeps state the canon cannot see, which is what the violations say)
        acc.error(
            f"{specname}: canonical form is too coarse or implementation is nondeterministic: "
            f"{conflicts[:3]}"
        )
    cov = {
        "states": len(seen),
        "transitions": transitions,
        "traces_validated_against_impl": transitions,
        "max_depth": depth_done,
        "fixpoint": fixpoint,
        "ops_in_alphabet": nops,
        "undeduplicated_histories": all_hist,
        "undeduplicated_depth": undedup_depth,
        "canon_function_entries": len(table),
        "canon_conflicts": len(conflicts),
    }
    sample_states = list(seen.values())[:: max(1, len(seen) // 3)][:3]
    cov["samples"] = [[spec.ops[i] for i in h] for h in sample_states if h] or [[]]
    return cov, acc


def hidden_state(obj, known=()):
    """Instance attributes beyond the ones a spec describes itself (caches, flags, memoised values), as a sorted list of
    (name, repr). Including them in a canonical form only makes it finer: two states are merged only if the hidden
    attributes agree as well, so a stale cache cannot hide behind an equal visible state."""
    out = []
    for k, v in sorted(getattr(obj, "__dict__", {}).items()):
        if k in known:
            continue
        try:
            r = repr(v)
        except Exception:
            r = "<unprintable>"
        out.append([k, r[:300]])
    return out


def deep_hidden_state(obj, known=(), depth=3):
    """hidden_state, followed into attribute objects that have attributes of their own (an options object, a cached helper ...):
    nested [name, type, state] lists with memory addresses removed. Arrays of numbers are summarised by dtype, shape and bytes."""
    import re

    import numpy as np

    def walk(v, d):
        if isinstance(v, (bool, int, float, str, bytes, type(None))):
            return repr(v)
        if isinstance(v, np.ndarray):
            return ["ndarray", str(v.dtype), list(v.shape), v.tobytes().hex()[:64]]
        if isinstance(v, (list, tuple)):
            return [type(v).__name__] + [walk(x, d - 1) for x in v][:50] if d > 0 else type(v).__name__
        if isinstance(v, dict):
            return ["dict"] + [[repr(k)[:60], walk(x, d - 1)] for k, x in list(v.items())[:50]] if d > 0 else "dict"
        inner = getattr(v, "__dict__", None)
        if isinstance(inner, dict) and d > 0:
            import types

            return [type(v).__name__] + [[k, walk(x, d - 1)] for k, x in sorted(inner.items())
                                         if not isinstance(x, (types.FunctionType, types.MethodType, types.BuiltinFunctionType))]
        try:
            return re.sub(r"0x[0-9a-fA-F]+", "0x", repr(v))[:200]
        except Exception:
            return "<unprintable>"

    return [[k, walk(v, depth)] for k, v in sorted(getattr(obj, "__dict__", {}).items()) if k not in known]


def replay_case(case):
    """Re-run one recorded history, checking every step; returns list of (sig, detail)."""
    spec = get_spec(case["spec_mod"], case["spec"], case.get("params"))
    impl, model, obs, problems, cb = run_history(spec, case["hist_idx"], check_last_only=False)
    return problems

"""E3 — prange schedule explorer.

The numba kernels are `@njit(parallel=True)` functions whose only parallel construct is
`for v in prange(...)`. The compiled threads cannot be scheduled from Python, so the explorer checks
the source-level concurrency semantics numba documents, on thread bodies derived mechanically from the
kernel's *current* source:

  * the source of kernel.py_func is parsed; each `for v in prange(e): BODY` becomes a nested function
    `__body(v)` (names assigned in BODY are per-iteration locals, names only read are closure reads)
    handed to the scheduler; whether the region is parallel at all is read from the real dispatcher;
  * every ndarray of the enclosing frame used in BODY is wrapped in a proxy: a load returns a copy, a
    store writes it back, so `A[i] += v` is the non-atomic load-add-store the compiled code performs;
    each load/store on an array written in the region is a scheduling point;
  * virtual threads are Python threads passing a baton; a schedule is the list of choices taken at the
    points where more than one thread is enabled; executions are replayed from a prefix (stateless search);
  * conflict certificate: if no element is written by one iteration and read or written by another, all
    interleavings are equivalent and one execution covers them.

Assumptions: sequentially consistent memory at element granularity; a slice store is one step.
"""
import ast
import inspect
import itertools
import textwrap
import threading

import numpy as np


class Unsupported(Exception):
    pass


# answers of numba.get_num_threads() / get_thread_id() inside rewritten kernels
VIRTUAL = {"get_num_threads": 1, "get_thread_id": 0}


# ------------------------------------------------------------------ source rewriting


def _is_prange(node):
    f = node.iter
    if not isinstance(f, ast.Call):
        return False
    fn = f.func
    return (isinstance(fn, ast.Name) and fn.id == "prange") or (isinstance(fn, ast.Attribute) and fn.attr == "prange")


class _Names(ast.NodeVisitor):
    def __init__(self):
        self.loaded, self.stored, self.sub_written = set(), set(), set()

    def visit_Name(self, node):
        (self.loaded if isinstance(node.ctx, ast.Load) else self.stored).add(node.id)

    def visit_Subscript(self, node):
        if isinstance(node.ctx, (ast.Store, ast.Del)):
            base = node.value
            while isinstance(base, ast.Subscript):
                base = base.value
            if isinstance(base, ast.Name):
                self.sub_written.add(base.id)
            else:
                raise Unsupported("store through a non-name base")
        self.generic_visit(node)

    def visit_AugAssign(self, node):
        if isinstance(node.target, ast.Subscript):
            base = node.target.value
            while isinstance(base, ast.Subscript):
                base = base.value
            if isinstance(base, ast.Name):
                self.sub_written.add(base.id)
                self.loaded.add(base.id)
        self.generic_visit(node)


class _ContinueToReturn(ast.NodeTransformer):
    """`continue` at the level of the prange body ends that iteration: in the body function it is a `return`.
    Inner loops keep their own continue/break."""

    def visit_For(self, node):
        return node

    visit_While = visit_For
    visit_FunctionDef = visit_For

    def visit_Continue(self, node):
        return ast.copy_location(ast.Return(value=None), node)

    def visit_Break(self, node):
        raise Unsupported("break out of a prange loop")


def rewrite(kernel):
    """-> (python function taking (sched, *args), info dict)"""
    py = getattr(kernel, "py_func", kernel)
    parallel = bool(getattr(kernel, "targetoptions", {}).get("parallel", False))
    src = textwrap.dedent(inspect.getsource(py))
    tree = ast.parse(src)
    fdef = tree.body[0]
    if not isinstance(fdef, ast.FunctionDef):
        raise Unsupported("kernel source is not a function")
    fdef.decorator_list = []
    argnames = [a.arg for a in fdef.args.args]
    outer_assigned = set(argnames)
    new_body = []
    regions = []
    for stmt in fdef.body:
        if isinstance(stmt, ast.For) and _is_prange(stmt):
            if stmt.orelse:
                raise Unsupported("prange loop with else clause")
            if not isinstance(stmt.target, ast.Name):
                raise Unsupported("prange loop target is not a name")
            nv = _Names()
            for s in stmt.body:
                nv.visit(s)
            shared_scalars = (nv.stored - {stmt.target.id}) & outer_assigned
            if shared_scalars:
                raise Unsupported(f"assignment to outer names {sorted(shared_scalars)} inside prange (reduction?)")
            wrap = sorted((nv.loaded | nv.sub_written) & outer_assigned)
            k = len(regions)
            regions.append({"written": sorted(nv.sub_written & outer_assigned), "wrapped": wrap, "var": stmt.target.id})
            for name in wrap:
                new_body.append(ast.parse(f"{name} = __sched.wrap({name}, {name!r}, {name in nv.sub_written})").body[0])
            body_fn = ast.FunctionDef(
                name=f"__body_{k}", args=ast.arguments(posonlyargs=[], args=[ast.arg(arg=stmt.target.id)], kwonlyargs=[], kw_defaults=[], defaults=[]),
                body=[_ContinueToReturn().visit(b) for b in stmt.body], decorator_list=[], returns=None, type_params=[],
            )
            new_body.append(body_fn)
            call = ast.parse(f"__sched.parallel_for(__body_{k}, {k})").body[0]
            call.value.args.extend(stmt.iter.args)
            new_body.append(call)
            for name in wrap:
                new_body.append(ast.parse(f"{name} = __sched.unwrap({name})").body[0])
        else:
            for node in ast.walk(stmt):
                if isinstance(node, ast.For) and _is_prange(node):
                    raise Unsupported("nested prange loop")
            nv = _Names()
            nv.visit(stmt)
            outer_assigned |= nv.stored
            new_body.append(stmt)
    fdef.body = new_body
    fdef.args.args.insert(0, ast.arg(arg="__sched"))
    fdef.name = "__kernel"
    ast.fix_missing_locations(tree)
    ns = dict(py.__globals__)
    ns["prange"] = range
    # np.empty / np.empty_like hand out uninitialised memory: the adversarial environment answer is a finite
    # poison value (never NaN, never 0), so that an element the kernel forgets to initialise is visible
    for k, v in list(ns.items()):
        if v is np:
            ns[k] = _PoisonedNumpy()
    # numba's thread queries are answered by the virtual scheduler
    for fname in ("get_num_threads", "get_thread_id"):
        if fname in ns:
            ns[fname] = (lambda f: (lambda: VIRTUAL[f]))(fname)
    exec(compile(tree, f"<rewritten {py.__name__}>", "exec"), ns)
    info = {"parallel": parallel, "regions": regions, "name": py.__name__, "args": argnames}
    return ns["__kernel"], info


POISON = -7.25e77


class _PoisonedNumpy:
    def __getattr__(self, name):
        return getattr(np, name)

    @staticmethod
    def empty(shape, dtype=np.float64, **kw):
        a = np.empty(shape, dtype=dtype)
        a[...] = POISON if np.issubdtype(a.dtype, np.floating) else 123456789
        return a

    @staticmethod
    def empty_like(x, dtype=None, **kw):
        return _PoisonedNumpy.empty(np.shape(x), dtype=dtype or np.asarray(x).dtype)


def static_chunks(iters, T):
    """numba's static schedule: contiguous chunks, one per thread (empty chunks dropped)"""
    iters = list(iters)
    T = max(1, int(T))
    n = len(iters)
    size, extra = divmod(n, T)
    out, k = [], 0
    for t in range(T):
        m = size + (1 if t < extra else 0)
        if m:
            out.append(iters[k:k + m])
        k += m
    return out


# ------------------------------------------------------------------ proxies and scheduler


class Proxy:
    __slots__ = ("_a", "_name", "_written", "_s")

    def __init__(self, a, name, written, sched):
        self._a, self._name, self._written, self._s = a, name, written, sched

    @property
    def shape(self):
        return self._a.shape

    @property
    def dtype(self):
        return self._a.dtype

    @property
    def ndim(self):
        return self._a.ndim

    def __len__(self):
        return len(self._a)

    def _elements(self, idx):
        m = np.zeros(self._a.shape, dtype=bool)
        m[idx] = True
        return np.flatnonzero(m)

    def __getitem__(self, idx):
        if self._written:
            self._s.point(self._name, "r", self._elements(idx))
        v = self._a[idx]
        return np.array(v) if isinstance(v, np.ndarray) else v

    def __setitem__(self, idx, val):
        self._s.point(self._name, "w", self._elements(idx))
        self._a[idx] = val


class HarnessError(Exception):
    pass


class _NoSem:
    def acquire(self):
        pass

    def release(self):
        pass


class Scheduler:
    """mode 'seq': iterations in order in the calling thread, recording access sets per iteration.
    mode 'threads': `partition` (list of iteration lists) on virtual threads following `prefix`."""

    def __init__(self, mode, partition=None, prefix=(), parallel=True, nthreads=1):
        self.mode = mode
        self.partition = partition
        self.nthreads = nthreads
        self.region_iterations = {}
        self.prefix = list(prefix)
        self.parallel = parallel
        self.access = {}  # (region, iteration) -> list of (array, kind, elements)
        self.cur_iter = None
        self.trace = []  # list of (enabled tuple, chosen, prev_running)
        self.points = 0
        self._tl = threading.local()
        self.errors = []

    @property
    def main_region(self):
        """the parallel region with the most iterations (ties: the last one)"""
        if not self.region_iterations:
            return None
        return max(sorted(self.region_iterations), key=lambda r: (len(self.region_iterations[r]), r))

    @property
    def iterations(self):
        r = self.main_region
        return [] if r is None else self.region_iterations[r]

    def accesses_of(self, region, i):
        return self.access.get((region, i), [])

    # -- array wrapping
    def wrap(self, obj, name, written):
        if isinstance(obj, np.ndarray):
            return Proxy(obj, name, written, self)
        return obj

    def unwrap(self, obj):
        return obj._a if isinstance(obj, Proxy) else obj

    # -- scheduling points
    def point(self, name, kind, elements):
        if self.mode == "seq" or not self.parallel:
            self.access.setdefault(self.cur_iter, []).append((name, kind, elements))
            return
        tid = self._tl.tid
        self.points += 1
        self._yield(tid)

    def _yield(self, tid):
        self.state[tid] = "blocked"
        self.ctrl.release()
        self.sems[tid].acquire()
        self.state[tid] = "running"

    # -- the loop
    def partition_of(self, region, iters):
        """The explored partition applies to the region whose iteration set it covers; every other parallel
        region of the kernel gets numba's static schedule for the virtual thread count."""
        part = self.partition
        if part is not None and sorted(x for p in part for x in p) == list(iters):
            return [list(p) for p in part if p]
        return static_chunks(iters, self.nthreads)

    def parallel_for(self, body, region, *range_args):
        iters = list(range(*[int(a) for a in range_args]))
        self.region_iterations[region] = iters
        if self.mode == "seq" or not self.parallel:
            for i in iters:
                self.cur_iter = (region, i)
                body(i)
            self.cur_iter = None
            return
        part = self.partition_of(region, iters)
        T = len(part)
        if T == 0:
            return
        self.sems = [threading.Semaphore(0) for _ in range(T)]
        self.ctrl = threading.Semaphore(0)
        self.state = ["new"] * T

        def runner(tid):
            self._tl.tid = tid
            try:
                self._yield(tid)  # block before the first step
                for i in part[tid]:
                    VIRTUAL["get_thread_id"] = tid  # only one virtual thread runs at a time
                    body(i)
            except BaseException as e:  # noqa: B902
                import traceback

                self.errors.append(traceback.format_exc())
            finally:
                self.state[tid] = "done"
                self.ctrl.release()

        if T == 1:
            # a single thread: no choice points; run inline (loads/stores still go through the proxies)
            self._tl.tid = 0
            self.sems, self.ctrl, self.state = [_NoSem()], _NoSem(), ["running"]
            VIRTUAL["get_thread_id"] = 0
            for i in part[0]:
                body(i)
            return
        threads = [threading.Thread(target=runner, args=(t,), daemon=True) for t in range(T)]
        for t in threads:
            t.start()
        for _ in range(T):
            self.ctrl.acquire()  # every thread is now blocked at its start point
        running = None
        step = 0
        while True:
            enabled = [t for t in range(T) if self.state[t] == "blocked"]
            if not enabled:
                break
            if len(enabled) == 1:
                choice = enabled[0]
            else:
                # canonical order: the running thread first if still enabled, then ascending ids
                order = ([running] if running in enabled else []) + [t for t in enabled if t != running]
                k = len(self.trace)
                if k < len(self.prefix):
                    choice = self.prefix[k]
                    if choice not in enabled:
                        raise HarnessError(f"schedule prefix diverged at choice {k}: {choice} not in {enabled}")
                else:
                    choice = order[0]
                self.trace.append((tuple(order), choice, running))
            running = choice
            self.sems[choice].release()
            self.ctrl.acquire()  # wait until it blocks again or finishes
            step += 1
            if step > 100000:
                raise HarnessError("schedule horizon exceeded")
        for t in threads:
            t.join(timeout=10)
        if self.errors:
            raise HarnessError("exception in a virtual thread:\n" + self.errors[0])


# ------------------------------------------------------------------ exploration


def run_sequential(fn, info, args, nthreads=1):
    """One thread executes every iteration in order; numba.get_num_threads() answers `nthreads`."""
    s = Scheduler("seq", parallel=info["parallel"], nthreads=nthreads)
    VIRTUAL["get_num_threads"], VIRTUAL["get_thread_id"] = nthreads, 0
    try:
        res = fn(s, *[np.array(a, copy=True) if isinstance(a, np.ndarray) else a for a in args])
    finally:
        VIRTUAL["get_num_threads"] = 1
    return res, s


def conflicts(s, region="main"):
    """element-level conflicts between different iterations of one parallel region (regions are separated by a
    barrier): list of (array, element, kind, iterations). region="main": the region with the most iterations."""
    if region == "main":
        region = s.main_region
    writes, reads = {}, {}
    for (reg, it), acc in s.access.items():
        if reg != region:
            continue
        for name, kind, el in acc:
            d = writes if kind == "w" else reads
            for e in el.tolist():
                d.setdefault((name, e), set()).add(it)
    out = []
    for key, ws in writes.items():
        if len(ws) > 1:
            out.append((key[0], key[1], "write-write", sorted(ws)))
        rs = reads.get(key, set()) - ws
        if rs:
            out.append((key[0], key[1], "read-write", sorted(ws | rs)))
        elif key in reads and len(ws | reads[key]) > 1:
            out.append((key[0], key[1], "read-write", sorted(ws | reads[key])))
    return out


def cross_conflicts(s, partition, nthreads):
    """conflicts between iterations that run on different virtual threads, over every parallel region of the
    kernel: the explored partition for the region it covers, the static schedule for the others.
    -> list of (region, array, element, kind, iterations)"""
    probe = Scheduler("threads", partition=partition, nthreads=nthreads)
    out = []
    for region, iters in s.region_iterations.items():
        part = probe.partition_of(region, iters)
        owner = {i: k for k, blk in enumerate(part) for i in blk}
        for cf in conflicts(s, region):
            if len({owner[i] for i in cf[3]}) > 1:
                out.append((region,) + cf)
    return out


def run_threads(fn, info, args, partition, prefix, nthreads=None):
    T = nthreads or max(1, len(partition or [1]))
    s = Scheduler("threads", partition=partition, prefix=prefix, parallel=info["parallel"], nthreads=T)
    VIRTUAL["get_num_threads"], VIRTUAL["get_thread_id"] = T, 0
    try:
        res = fn(s, *[np.array(a, copy=True) if isinstance(a, np.ndarray) else a for a in args])
    finally:
        VIRTUAL["get_num_threads"] = 1
    return res, s


def preemptions(trace, upto=None):
    n = 0
    for order, chosen, running in trace[:upto]:
        if running is not None and running in order and chosen != running:
            n += 1
    return n


def set_partitions(items, max_blocks):
    """all partitions of `items` into at most max_blocks non-empty blocks (blocks keep increasing order)"""
    items = list(items)
    if not items:
        yield []
        return
    first, rest = items[0], items[1:]
    for p in set_partitions(rest, max_blocks):
        for i in range(len(p)):
            yield p[:i] + [[first] + p[i]] + p[i + 1:]
        if len(p) < max_blocks:
            yield [[first]] + p


def children_of(trace, start, bound):
    """alternative prefixes branching off an execution at choice index >= start"""
    out = []
    for i in range(start, len(trace)):
        order, chosen, running = trace[i]
        base = preemptions(trace, i)
        for alt in order:
            if alt == chosen:
                continue
            cost = base + (1 if (running is not None and running in order and alt != running) else 0)
            if bound is not None and cost > bound:
                continue
            out.append([c for _, c, _ in trace[:i]] + [alt])
    return out


def explore_subtree(fn, info, args, partition, prefix, bound, check, limit=None, root_only_if=False, nthreads=None):
    """DFS below `prefix` (the execution of `prefix` itself included). check(result) -> None | detail.
    Returns dict(executions, failures: list of (schedule, detail), max_choices)."""
    stack = [list(prefix)]
    n, fails, maxc, outcomes = 0, [], 0, set()
    while stack:
        p = stack.pop()
        res, s = run_threads(fn, info, args, partition, p, nthreads=nthreads)
        n += 1
        maxc = max(maxc, len(s.trace))
        d = check(res)
        outcomes.add(_digest(res))
        if d is not None and len(fails) < 5:
            fails.append(([c for _, c, _ in s.trace], d))
        elif d is not None:
            fails.append(None) if False else None
        if not root_only_if:
            stack.extend(children_of(s.trace, len(p), bound))
        if limit is not None and n >= limit:
            return {"executions": n, "failures": fails, "max_choices": maxc, "capped": True, "outcomes": outcomes}
    return {"executions": n, "failures": fails, "max_choices": maxc, "capped": False, "outcomes": outcomes}


def _digest(res):
    import hashlib

    h = hashlib.sha256()
    for r in (res if isinstance(res, tuple) else (res,)):
        h.update(np.ascontiguousarray(r).tobytes())
    return h.hexdigest()[:16]


# ------------------------------------------------------------------ API-level runs on virtual threads

_VIRT_CACHE = {}


def _virtual_kernel(disp, T, stats):
    key = id(disp)
    if key not in _VIRT_CACHE:
        try:
            _VIRT_CACHE[key] = (disp, rewrite(disp), inspect.signature(disp.py_func))
        except Unsupported as e:
            _VIRT_CACHE[key] = (disp, None, str(e))
    _, rw, sig = _VIRT_CACHE[key]
    if rw is None:
        stats["not_virtualized"] = stats.get("not_virtualized", 0) + 1
        return None
    fn, info = rw

    def call(*a, **kw):
        b = sig.bind(*a, **kw)
        b.apply_defaults()
        args = [b.arguments[n] for n in info["args"]]
        stats["kernel_calls"] = stats.get("kernel_calls", 0) + 1
        res, _ = run_threads(fn, info, args, None, [], nthreads=T)
        return res

    call.py_func = disp.py_func
    return call


class virtual_threads:
    """Context manager: every numba `parallel=True` kernel referenced from the given modules is replaced by its
    thread bodies (derived from its current source by `rewrite`) run on T virtual threads with numba's static
    work split and the default (non-preemptive) schedule; numba.get_num_threads() answers T and np.empty hands out
    poisoned memory. The public API above the kernels is the real code. Deterministic."""

    def __init__(self, modules, T):
        self.modules, self.T, self.saved, self.stats = list(modules), int(T), [], {}

    def __enter__(self):
        for m in self.modules:
            for name, val in list(vars(m).items()):
                opts = getattr(val, "targetoptions", None)
                if hasattr(val, "py_func") and isinstance(opts, dict) and opts.get("parallel"):
                    v = _virtual_kernel(val, self.T, self.stats)
                    if v is not None:
                        self.saved.append((m, name, val))
                        setattr(m, name, v)
        self.stats["kernels_virtualized"] = len({id(v) for _, _, v in self.saved})
        return self

    def __exit__(self, *a):
        for m, name, val in self.saved:
            setattr(m, name, val)
        self.saved = []
        return False
